//! Serializer / deserializer for AxCut programs (flat node table, 1-based node indices).
//! The same JSON shape is produced for pipeline outputs and accepted for generated programs,
//! and it is what `spec/AxCutMachine.tla` reads.
use axcut::syntax::statements::ifc::IfSort;
use axcut::syntax::statements::*;
use axcut::syntax::*;
use printer::Print;
use serde_json::{Value, json};
use std::rc::Rc;

pub fn limbs(x: i64) -> Value {
    let u = x as u64;
    json!([(u & 0xffff), ((u >> 16) & 0xffff), ((u >> 32) & 0xffff), ((u >> 48) & 0xffff)])
}
pub fn unlimbs(v: &Value) -> i64 {
    let a = v.as_array().expect("limbs");
    let mut u: u64 = 0;
    for (i, l) in a.iter().enumerate() {
        u |= (l.as_u64().unwrap() & 0xffff) << (16 * i);
    }
    u as i64
}
fn chi(c: &Chirality) -> &'static str {
    match c {
        Chirality::Prd => "prd",
        Chirality::Cns => "cns",
        Chirality::Ext => "ext",
    }
}
fn ty(t: &Ty) -> Value {
    match t {
        Ty::I64 => json!("i64"),
        Ty::Decl(n) => json!(n.print_to_string(None)),
    }
}
fn binding(b: &ContextBinding) -> Value {
    json!({"id": b.var.id, "name": b.var.name, "chi": chi(&b.chi), "ty": ty(&b.ty)})
}
fn ctx(c: &TypingContext) -> Value {
    Value::Array(c.bindings.iter().map(binding).collect())
}
fn opname(o: &BinOp) -> &'static str {
    match o {
        BinOp::Div => "div",
        BinOp::Prod => "mul",
        BinOp::Rem => "rem",
        BinOp::Sum => "add",
        BinOp::Sub => "sub",
    }
}
fn sortname(s: &IfSort) -> &'static str {
    match s {
        IfSort::Equal => "eq",
        IfSort::NotEqual => "ne",
        IfSort::Less => "lt",
        IfSort::LessOrEqual => "le",
        IfSort::Greater => "gt",
        IfSort::GreaterOrEqual => "ge",
    }
}

struct Ser {
    nodes: Vec<Value>,
}
impl Ser {
    fn push(&mut self, v: Value) -> usize {
        self.nodes.push(v);
        self.nodes.len()
    }
    fn clauses(&mut self, cs: &[Clause]) -> Value {
        let mut out = vec![];
        for c in cs {
            let body = self.stmt(&c.body);
            out.push(json!({"xtor": c.xtor.print_to_string(None), "ctx": ctx(&c.context), "body": body}));
        }
        Value::Array(out)
    }
    fn stmt(&mut self, s: &Statement) -> usize {
        match s {
            Statement::Substitute(x) => {
                let next = self.stmt(&x.next);
                let re: Vec<Value> = x
                    .rearrange
                    .iter()
                    .map(|(n, o)| json!({"new": binding(n), "old": o.id}))
                    .collect();
                self.push(json!({"k": "substitute", "re": re, "next": next}))
            }
            Statement::Call(x) => self.push(
                json!({"k": "call", "label": x.label.print_to_string(None), "args": ctx(&x.args)}),
            ),
            Statement::Let(x) => {
                let next = self.stmt(&x.next);
                self.push(json!({"k": "let", "var": {"id": x.var.id, "name": x.var.name, "chi": "prd", "ty": ty(&x.ty)},
                    "tag": x.tag.print_to_string(None), "args": ctx(&x.args), "next": next}))
            }
            Statement::Switch(x) => {
                let cl = self.clauses(&x.clauses);
                self.push(json!({"k": "switch", "var": x.var.id, "ty": ty(&x.ty), "clauses": cl}))
            }
            Statement::Create(x) => {
                let next = self.stmt(&x.next);
                let cl = self.clauses(&x.clauses);
                let (hasenv, env) = match &x.context {
                    Some(c) => (true, ctx(c)),
                    None => (false, json!([])),
                };
                self.push(json!({"k": "create", "var": {"id": x.var.id, "name": x.var.name, "chi": "cns", "ty": ty(&x.ty)},
                    "hasenv": hasenv, "env": env, "clauses": cl, "next": next}))
            }
            Statement::Invoke(x) => self.push(json!({"k": "invoke", "var": x.var.id, "tag": x.tag.print_to_string(None),
                    "ty": ty(&x.ty), "args": ctx(&x.args)})),
            Statement::Literal(x) => {
                let next = self.stmt(&x.next);
                self.push(json!({"k": "lit", "var": {"id": x.var.id, "name": x.var.name, "chi": "ext", "ty": "i64"},
                    "lit": limbs(x.lit), "next": next}))
            }
            Statement::Op(x) => {
                let next = self.stmt(&x.next);
                self.push(json!({"k": "op", "var": {"id": x.var.id, "name": x.var.name, "chi": "ext", "ty": "i64"},
                    "fst": x.fst.id, "op": opname(&x.op), "snd": x.snd.id, "next": next}))
            }
            Statement::PrintI64(x) => {
                let next = self.stmt(&x.next);
                self.push(json!({"k": "print", "nl": x.newline, "var": x.var.id, "next": next}))
            }
            Statement::IfC(x) => {
                let t = self.stmt(&x.thenc);
                let e = self.stmt(&x.elsec);
                self.push(json!({"k": "ifc", "sort": sortname(&x.sort), "fst": x.fst.id,
                    "snd": x.snd.as_ref().map(|s| s.id).unwrap_or(0), "thenc": t, "elsec": e}))
            }
            Statement::Exit(x) => self.push(json!({"k": "exit", "var": x.var.id})),
        }
    }
}

pub fn prog_json(p: &Prog) -> Value {
    let mut ser = Ser { nodes: vec![] };
    let mut defs = vec![];
    for d in &p.defs {
        let body = ser.stmt(&d.body);
        defs.push(json!({"name": d.name.print_to_string(None), "ctx": ctx(&d.context), "body": body}));
    }
    let types: Vec<Value> = p
        .types
        .iter()
        .map(|t| {
            json!({"name": t.name.print_to_string(None),
        "xtors": t.xtors.iter().map(|x| json!({"name": x.name.print_to_string(None), "args": ctx(&x.args)})).collect::<Vec<_>>()})
        })
        .collect();
    json!({"defs": defs, "types": types, "nodes": ser.nodes, "max_id": p.max_id})
}

// ------------------------------------------------------------------ deserializer (generated programs)
// Names of definitions, types and xtors are plain (id 0); variables are (name, id).

fn ident0(s: &str) -> Identifier {
    Identifier { name: s.to_string(), id: 0 }
}
fn de_ty(v: &Value) -> Ty {
    let s = v.as_str().unwrap();
    if s == "i64" { Ty::I64 } else { Ty::Decl(ident0(s)) }
}
fn de_chi(v: &Value) -> Chirality {
    match v.as_str().unwrap() {
        "prd" => Chirality::Prd,
        "cns" => Chirality::Cns,
        "ext" => Chirality::Ext,
        o => panic!("chirality {o}"),
    }
}
fn de_binding(v: &Value) -> ContextBinding {
    ContextBinding {
        var: Identifier {
            name: v["name"].as_str().unwrap_or("v").to_string(),
            id: v["id"].as_u64().unwrap() as usize,
        },
        chi: de_chi(&v["chi"]),
        ty: de_ty(&v["ty"]),
    }
}
fn de_ctx(v: &Value) -> TypingContext {
    TypingContext { bindings: v.as_array().unwrap().iter().map(de_binding).collect() }
}

struct De<'a> {
    nodes: &'a Vec<Value>,
    names: std::collections::HashMap<usize, String>,
}
impl De<'_> {
    fn var(&self, id: usize) -> Identifier {
        Identifier { name: self.names.get(&id).cloned().unwrap_or_else(|| "v".to_string()), id }
    }
    fn clauses(&self, v: &Value) -> Vec<Clause> {
        v.as_array()
            .unwrap()
            .iter()
            .map(|c| Clause {
                xtor: ident0(c["xtor"].as_str().unwrap()),
                context: de_ctx(&c["ctx"]),
                body: Rc::new(self.stmt(c["body"].as_u64().unwrap() as usize)),
            })
            .collect()
    }
    fn next(&self, n: &Value) -> Rc<Statement> {
        Rc::new(self.stmt(n["next"].as_u64().unwrap() as usize))
    }
    fn stmt(&self, idx: usize) -> Statement {
        let n = &self.nodes[idx - 1];
        let u = |k: &str| n[k].as_u64().unwrap() as usize;
        match n["k"].as_str().unwrap() {
            "substitute" => Statement::Substitute(Substitute {
                rearrange: n["re"]
                    .as_array()
                    .unwrap()
                    .iter()
                    .map(|r| (de_binding(&r["new"]), self.var(r["old"].as_u64().unwrap() as usize)))
                    .collect(),
                next: self.next(n),
            }),
            "call" => Statement::Call(Call { label: ident0(n["label"].as_str().unwrap()), args: de_ctx(&n["args"]) }),
            "let" => Statement::Let(Let {
                var: de_binding(&n["var"]).var,
                ty: de_ty(&n["var"]["ty"]),
                tag: ident0(n["tag"].as_str().unwrap()),
                args: de_ctx(&n["args"]),
                next: self.next(n),
                free_vars_next: None,
            }),
            "switch" => Statement::Switch(Switch {
                var: self.var(u("var")),
                ty: de_ty(&n["ty"]),
                clauses: self.clauses(&n["clauses"]),
                free_vars_clauses: None,
            }),
            "create" => Statement::Create(Create {
                var: de_binding(&n["var"]).var,
                ty: de_ty(&n["var"]["ty"]),
                context: if n["hasenv"].as_bool().unwrap_or(false) { Some(de_ctx(&n["env"])) } else { None },
                clauses: self.clauses(&n["clauses"]),
                free_vars_clauses: None,
                next: self.next(n),
                free_vars_next: None,
            }),
            "invoke" => Statement::Invoke(Invoke {
                var: self.var(u("var")),
                tag: ident0(n["tag"].as_str().unwrap()),
                ty: de_ty(&n["ty"]),
                args: de_ctx(&n["args"]),
            }),
            "lit" => Statement::Literal(Literal {
                lit: unlimbs(&n["lit"]),
                var: de_binding(&n["var"]).var,
                next: self.next(n),
                free_vars_next: None,
            }),
            "op" => Statement::Op(Op {
                fst: self.var(u("fst")),
                op: match n["op"].as_str().unwrap() {
                    "div" => BinOp::Div,
                    "mul" => BinOp::Prod,
                    "rem" => BinOp::Rem,
                    "add" => BinOp::Sum,
                    "sub" => BinOp::Sub,
                    o => panic!("op {o}"),
                },
                snd: self.var(u("snd")),
                var: de_binding(&n["var"]).var,
                next: self.next(n),
                free_vars_next: None,
            }),
            "print" => Statement::PrintI64(PrintI64 {
                newline: n["nl"].as_bool().unwrap(),
                var: self.var(u("var")),
                next: self.next(n),
                free_vars_next: None,
            }),
            "ifc" => Statement::IfC(IfC {
                sort: match n["sort"].as_str().unwrap() {
                    "eq" => IfSort::Equal,
                    "ne" => IfSort::NotEqual,
                    "lt" => IfSort::Less,
                    "le" => IfSort::LessOrEqual,
                    "gt" => IfSort::Greater,
                    "ge" => IfSort::GreaterOrEqual,
                    o => panic!("sort {o}"),
                },
                fst: self.var(u("fst")),
                snd: if u("snd") == 0 { None } else { Some(self.var(u("snd"))) },
                thenc: Rc::new(self.stmt(u("thenc"))),
                elsec: Rc::new(self.stmt(u("elsec"))),
            }),
            "exit" => Statement::Exit(Exit { var: self.var(u("var")) }),
            o => panic!("statement kind {o}"),
        }
    }
}

/// Collect id -> name from every binder occurrence so that use sites carry the binder's name.
fn collect_names(v: &Value, names: &mut std::collections::HashMap<usize, String>) {
    match v {
        Value::Object(m) => {
            if let (Some(id), Some(name), Some(_)) = (m.get("id"), m.get("name"), m.get("chi")) {
                if let (Some(id), Some(name)) = (id.as_u64(), name.as_str()) {
                    names.entry(id as usize).or_insert_with(|| name.to_string());
                }
            }
            for x in m.values() {
                collect_names(x, names);
            }
        }
        Value::Array(a) => {
            for x in a {
                collect_names(x, names);
            }
        }
        _ => {}
    }
}

pub fn prog_from_json(v: &Value) -> Prog {
    let nodes = v["nodes"].as_array().unwrap();
    let mut names = std::collections::HashMap::new();
    collect_names(v, &mut names);
    let de = De { nodes, names };
    let defs = v["defs"]
        .as_array()
        .unwrap()
        .iter()
        .map(|d| Def {
            name: ident0(d["name"].as_str().unwrap()),
            context: de_ctx(&d["ctx"]),
            body: de.stmt(d["body"].as_u64().unwrap() as usize),
        })
        .collect();
    let types = v["types"]
        .as_array()
        .unwrap()
        .iter()
        .map(|t| TypeDeclaration {
            name: ident0(t["name"].as_str().unwrap()),
            xtors: t["xtors"]
                .as_array()
                .unwrap()
                .iter()
                .map(|x| XtorSig { name: ident0(x["name"].as_str().unwrap()), args: de_ctx(&x["args"]) })
                .collect(),
        })
        .collect();
    Prog { defs, types, max_id: v["max_id"].as_u64().unwrap() as usize }
}
