//! Replays of TLC-enumerated behaviours into the real code.
use crate::{hash_str, panic_msg};
use driver::{Driver, PrintMode, paths::Paths};
use printer::Print;
use serde_json::{Value, json};
use std::collections::{HashMap, HashSet};
use std::io::Write;
use std::panic::{AssertUnwindSafe, catch_unwind};
use std::path::PathBuf;

/// Assembly text modulo renaming of labels: comments dropped, every label (a name defined by `name:`)
/// replaced by the index of its first appearance.
pub fn canonical_asm(text: &str) -> String {
    let mut labels: HashSet<String> = HashSet::new();
    let strip = |line: &str| -> String {
        let l = line.split(';').next().unwrap_or("");
        let l = l.split("//").next().unwrap_or("");
        l.trim().to_string()
    };
    for line in text.lines() {
        let l = strip(line);
        if let Some(name) = l.strip_suffix(':') {
            labels.insert(name.trim().to_string());
        }
    }
    let mut order: HashMap<String, usize> = HashMap::new();
    let mut out = String::new();
    for line in text.lines() {
        let l = strip(line);
        if l.is_empty() {
            continue;
        }
        let mut tok = String::new();
        let flush = |tok: &mut String, out: &mut String, order: &mut HashMap<String, usize>| {
            if tok.is_empty() {
                return;
            }
            if labels.contains(tok.as_str()) {
                let n = order.len();
                let k = *order.entry(tok.clone()).or_insert(n);
                out.push_str(&format!("L{k}"));
            } else {
                out.push_str(tok);
            }
            tok.clear();
        };
        for ch in l.chars() {
            if ch.is_alphanumeric() || ch == '_' {
                tok.push(ch);
            } else {
                flush(&mut tok, &mut out, &mut order);
                out.push(ch);
            }
        }
        flush(&mut tok, &mut out, &mut order);
        out.push('\n');
    }
    out
}

fn request(driver: &mut Driver, path: &PathBuf, kind: &str) -> Result<String, String> {
    let e = |x: driver::result::DriverError| format!("{x:?}");
    let read = |dir: PathBuf, ext: &str| -> Result<String, String> {
        let mut f = PathBuf::from(path.file_name().unwrap());
        f.set_extension(ext);
        std::fs::read_to_string(dir.join(f)).map_err(|x| x.to_string())
    };
    match kind {
        "compiled" => Ok(driver.compiled(path).map_err(e)?.print_to_string(None)),
        "uniquified" => Ok(driver.uniquified(path).map_err(e)?.print_to_string(None)),
        "focused" => Ok(driver.focused(path).map_err(e)?.print_to_string(None)),
        "shrunk" => Ok(driver.shrunk(path).map_err(e)?.print_to_string(None)),
        "linearized" => Ok(driver.linearized(path).map_err(e)?.print_to_string(None)),
        "x86" => {
            driver.print_x86_64(path, PrintMode::Textual).map_err(e)?;
            Ok(canonical_asm(&read(Paths::x86_64_assembly_dir(), "asm")?))
        }
        "a64" => {
            driver.print_aarch64(path, PrintMode::Textual).map_err(e)?;
            Ok(canonical_asm(&read(Paths::aarch64_assembly_dir(), "asm")?))
        }
        "rv64" => {
            driver.print_rv_64(path, PrintMode::Textual).map_err(e)?;
            Ok(canonical_asm(&read(Paths::risc_v_assembly_dir(), "asm")?))
        }
        o => Err(format!("unknown request kind {o}")),
    }
}

pub fn driver_replay(spec: &Value, out_path: &std::path::Path) {
    let sources: HashMap<String, PathBuf> = spec["sources"]
        .as_object()
        .unwrap()
        .iter()
        .map(|(k, v)| (k.clone(), PathBuf::from(v.as_str().unwrap())))
        .collect();
    let mut out = std::io::BufWriter::new(std::fs::File::create(out_path).unwrap());
    for (hi, hist) in spec["histories"].as_array().unwrap().iter().enumerate() {
        let mut driver = Driver::new();
        for req in hist.as_array().unwrap() {
            let p = req[0].as_str().unwrap();
            let k = req[1].as_str().unwrap();
            let path = &sources[p];
            let r = catch_unwind(AssertUnwindSafe(|| request(&mut driver, path, k)));
            let (outcome, hash) = match r {
                Ok(Ok(s)) => ("ok".to_string(), hash_str(&s)),
                Ok(Err(m)) => (format!("error: {m}"), String::new()),
                Err(pe) => {
                    let m = panic_msg(pe);
                    if m.contains("not implemented in RISC-V backend") || m.contains("Out of registers") || m.contains("Out of temporaries") {
                        ("capacity".to_string(), String::new())
                    } else {
                        (format!("panic: {m}"), String::new())
                    }
                }
            };
            writeln!(out, "{}", json!({"hist": hi.to_string(), "path": p, "kind": k, "outcome": outcome, "hash": hash})).unwrap();
        }
    }
}
