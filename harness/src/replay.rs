//! Replays of TLC-enumerated behaviours into the real code.
use crate::{hash_str, panic_msg};
use driver::{Driver, PrintMode, paths::Paths};
use printer::Print;
use serde_json::{Value, json};
use std::collections::{HashMap, HashSet};
use std::io::Write;
use std::panic::{AssertUnwindSafe, catch_unwind};
use std::path::PathBuf;

/// Assembly text modulo renaming of labels: comments dropped, every label (a name defined by `name:`)
/// replaced by the index of its first appearance.
pub fn canonical_asm(text: &str) -> String {
    let mut labels: HashSet<String> = HashSet::new();
    let strip = |line: &str| -> String {
        let l = line.split(';').next().unwrap_or("");
        let l = l.split("//").next().unwrap_or("");
        l.trim().to_string()
    };
    for line in text.lines() {
        let l = strip(line);
        if let Some(name) = l.strip_suffix(':') {
            labels.insert(name.trim().to_string());
        }
    }
    let mut order: HashMap<String, usize> = HashMap::new();
    let mut out = String::new();
    for line in text.lines() {
        let l = strip(line);
        if l.is_empty() {
            continue;
        }
        let mut tok = String::new();
        let flush = |tok: &mut String, out: &mut String, order: &mut HashMap<String, usize>| {
            if tok.is_empty() {
                return;
            }
            if labels.contains(tok.as_str()) {
                let n = order.len();
                let k = *order.entry(tok.clone()).or_insert(n);
                out.push_str(&format!("L{k}"));
            } else {
                out.push_str(tok);
            }
            tok.clear();
        };
        for ch in l.chars() {
            if ch.is_alphanumeric() || ch == '_' {
                tok.push(ch);
            } else {
                flush(&mut tok, &mut out, &mut order);
                out.push(ch);
            }
        }
        flush(&mut tok, &mut out, &mut order);
        out.push('\n');
    }
    out
}

fn request(driver: &mut Driver, path: &PathBuf, kind: &str) -> Result<String, String> {
    let e = |x: driver::result::DriverError| format!("{x:?}");
    let read = |dir: PathBuf, ext: &str| -> Result<String, String> {
        let mut f = PathBuf::from(path.file_name().unwrap());
        f.set_extension(ext);
        std::fs::read_to_string(dir.join(f)).map_err(|x| x.to_string())
    };
    match kind {
        "compiled" => Ok(driver.compiled(path).map_err(e)?.print_to_string(None)),
        "uniquified" => Ok(driver.uniquified(path).map_err(e)?.print_to_string(None)),
        "focused" => Ok(driver.focused(path).map_err(e)?.print_to_string(None)),
        "shrunk" => Ok(driver.shrunk(path).map_err(e)?.print_to_string(None)),
        "linearized" => Ok(driver.linearized(path).map_err(e)?.print_to_string(None)),
        "x86" => {
            driver.print_x86_64(path, PrintMode::Textual).map_err(e)?;
            Ok(canonical_asm(&read(Paths::x86_64_assembly_dir(), "asm")?))
        }
        "a64" => {
            driver.print_aarch64(path, PrintMode::Textual).map_err(e)?;
            Ok(canonical_asm(&read(Paths::aarch64_assembly_dir(), "asm")?))
        }
        "rv64" => {
            driver.print_rv_64(path, PrintMode::Textual).map_err(e)?;
            Ok(canonical_asm(&read(Paths::risc_v_assembly_dir(), "asm")?))
        }
        o => Err(format!("unknown request kind {o}")),
    }
}

pub fn driver_replay(spec: &Value, out_path: &std::path::Path) {
    let sources: HashMap<String, PathBuf> = spec["sources"]
        .as_object()
        .unwrap()
        .iter()
        .map(|(k, v)| (k.clone(), PathBuf::from(v.as_str().unwrap())))
        .collect();
    let mut out = std::io::BufWriter::new(std::fs::File::create(out_path).unwrap());
    for (hi, hist) in spec["histories"].as_array().unwrap().iter().enumerate() {
        let mut driver = Driver::new();
        for req in hist.as_array().unwrap() {
            let p = req[0].as_str().unwrap();
            let k = req[1].as_str().unwrap();
            let path = &sources[p];
            let r = catch_unwind(AssertUnwindSafe(|| request(&mut driver, path, k)));
            let (outcome, hash) = match r {
                Ok(Ok(s)) => ("ok".to_string(), hash_str(&s)),
                Ok(Err(m)) => (format!("error: {m}"), String::new()),
                Err(pe) => {
                    let m = panic_msg(pe);
                    if m.contains("not implemented in RISC-V backend") || m.contains("Out of registers") || m.contains("Out of temporaries") {
                        ("capacity".to_string(), String::new())
                    } else {
                        (format!("panic: {m}"), String::new())
                    }
                }
            };
            writeln!(out, "{}", json!({"hist": hi.to_string(), "path": p, "kind": k, "outcome": outcome, "hash": hash})).unwrap();
        }
    }
}


// ---------------------------------------------------------------------------------------------- formatter round trip (C16)
fn fmt_cfg(width: usize, indent: isize) -> printer::PrintCfg {
    printer::PrintCfg { width, allow_linebreaks: true, latex: false, omit_decl_sep: false, indent }
}
fn render(p: &fun::syntax::program::Program, width: usize, indent: isize) -> String {
    let mut buf = Vec::new();
    p.print_io(&fmt_cfg(width, indent), &mut buf).expect("print");
    String::from_utf8_lossy(&buf).to_string()
}
fn nonblank(s: &str) -> String {
    s.chars().filter(|c| !c.is_whitespace()).collect()
}

/// For every source and every (width, indent): print the parsed tree, parse the text again, compare the trees
/// (positions are not part of the dump), print again (fixpoint) and compare the non-blank characters with the
/// reference rendering (width 10000).  One JSON line per source.
pub fn fmt_roundtrip(spec: &Value, out_path: &std::path::Path) {
    let configs: Vec<(usize, isize)> = spec["configs"].as_array().unwrap().iter()
        .map(|c| (c[0].as_u64().unwrap() as usize, c[1].as_i64().unwrap() as isize)).collect();
    let mut out = std::io::BufWriter::new(std::fs::File::create(out_path).unwrap());
    for src in spec["sources"].as_array().unwrap() {
        let name = src["name"].as_str().unwrap();
        let text = src["src"].as_str().unwrap();
        let r = catch_unwind(AssertUnwindSafe(|| -> Value {
            let parsed = match fun::parser::parse_module(text) {
                Ok(p) => p,
                Err(e) => return json!({"name": name, "parse": format!("{e:?}"), "records": []}),
            };
            let tree0 = crate::ser_parsed::prog_json(&parsed).to_string();
            let reference = nonblank(&render(&parsed, 10000, 4));
            let mut recs = vec![];
            for (w, i) in &configs {
                let t1 = render(&parsed, *w, *i);
                let (reparse, tree_equal, fixpoint) = match fun::parser::parse_module(&t1) {
                    Ok(p2) => {
                        let same = crate::ser_parsed::prog_json(&p2).to_string() == tree0;
                        let t2 = render(&p2, *w, *i);
                        (true, same, t2 == t1)
                    }
                    Err(_) => (false, false, false),
                };
                let nb = nonblank(&t1) == reference;
                let bad = !(reparse && tree_equal && fixpoint && nb);
                recs.push(json!({"w": w, "i": i, "reparse": reparse, "tree": tree_equal, "fix": fixpoint, "nonblank": nb,
                                 "text": if bad { t1 } else { String::new() }}));
            }
            json!({"name": name, "parse": "ok", "records": recs, "treehash": hash_str(&tree0)})
        }));
        let v = match r {
            Ok(v) => v,
            Err(e) => json!({"name": name, "parse": format!("panic: {}", panic_msg(e)), "records": []}),
        };
        writeln!(out, "{v}").unwrap();
    }
}
