//! Backend configuration, asked from the implementation (never hard-coded in the spec):
//! position -> temporaries, reserved temporaries, jump-table stride, block geometry.
use axcut::syntax::{Chirality, ContextBinding, Identifier, Ty, TypingContext};
use axcut2backend::{
    config::{Config, TemporaryNumber},
    utils::Utils,
};
use printer::Print;
use serde_json::{Value, json};
use std::panic::catch_unwind;

fn dummy_context(n: usize) -> TypingContext {
    let bindings: Vec<ContextBinding> = (0..n)
        .map(|i| ContextBinding { var: Identifier { name: "v".into(), id: i + 1 }, chi: Chirality::Prd, ty: Ty::I64 })
        .collect();
    bindings.into()
}

const MAXVARS: usize = 48;

fn table<T>(f: impl Fn(TemporaryNumber, &TypingContext, usize) -> T + std::panic::RefUnwindSafe, show: impl Fn(T) -> Value) -> Vec<Value> {
    let context = dummy_context(MAXVARS);
    let mut tab = vec![];
    for i in 0..MAXVARS {
        let a = catch_unwind(|| f(TemporaryNumber::Fst, &context, i + 1));
        let b = catch_unwind(|| f(TemporaryNumber::Snd, &context, i + 1));
        match (a, b) {
            (Ok(a), Ok(b)) => tab.push(json!({"fst": show(a), "snd": show(b)})),
            _ => break,
        }
    }
    tab
}

pub fn x86() -> Value {
    use axcut2x86_64::{Backend, config::*};
    let show = |t: Temporary| match t {
        Temporary::Register(r) => json!({"k": "reg", "r": r.print_to_string(None)}),
        Temporary::Spill(s) => json!({"k": "spill", "off": stack_offset(s).val}),
    };
    let tab = table(|n, c, i| Backend::variable_temporary(n, c, i), show);
    json!({"backend": "x86", "temps": tab, "heap": show(Backend::heap()), "free": show(Backend::free()),
           "temp": show(Backend::temp()), "return1": show(Backend::return1()), "return2": show(Backend::return2()),
           "jump_length": Backend::jump_length(1).val, "fields_per_block": FIELDS_PER_BLOCK,
           "spill_space": SPILL_SPACE, "spill_temp_off": stack_offset(SPILL_TEMP).val,
           "field_off": (0..FIELDS_PER_BLOCK).map(|i| json!([field_offset(TemporaryNumber::Fst, i).val, field_offset(TemporaryNumber::Snd, i).val])).collect::<Vec<_>>(),
           "sp": "rsp"})
}

pub fn a64() -> Value {
    use axcut2aarch64::{Backend, config::*};
    let show = |t: Temporary| match t {
        Temporary::Register(r) => json!({"k": "reg", "r": r.print_to_string(None)}),
        Temporary::Spill(s) => json!({"k": "spill", "off": stack_offset(s).val}),
    };
    let tab = table(|n, c, i| Backend::variable_temporary(n, c, i), show);
    json!({"backend": "a64", "temps": tab, "heap": show(Backend::heap()), "free": show(Backend::free()),
           "temp": show(Backend::temp()), "return1": show(Backend::return1()), "return2": show(Backend::return2()),
           "jump_length": Backend::jump_length(1).val, "fields_per_block": FIELDS_PER_BLOCK,
           "spill_space": SPILL_SPACE, "spill_temp_off": stack_offset(SPILL_TEMP).val,
           "field_off": (0..FIELDS_PER_BLOCK).map(|i| json!([field_offset(TemporaryNumber::Fst, i).val, field_offset(TemporaryNumber::Snd, i).val])).collect::<Vec<_>>(),
           "sp": "SP"})
}

pub fn rv64() -> Value {
    use axcut2rv64::{Backend, config::*};
    let show = |r: Register| json!({"k": "reg", "r": r.to_string()});
    let tab = table(|n, c, i| Backend::variable_temporary(n, c, i), show);
    json!({"backend": "rv64", "temps": tab, "heap": show(Backend::heap()), "free": show(Backend::free()),
           "temp": show(Backend::temp()), "return1": show(Backend::return1()), "return2": show(Backend::return2()),
           "jump_length": Backend::jump_length(1), "fields_per_block": FIELDS_PER_BLOCK,
           "spill_space": 0, "spill_temp_off": 0,
           "field_off": (0..FIELDS_PER_BLOCK).map(|i| json!([field_offset(TemporaryNumber::Fst, i), field_offset(TemporaryNumber::Snd, i)])).collect::<Vec<_>>(),
           "sp": "X-none"})
}
