//! sccv — conformance harness binding the TLA+ specifications in /verif/spec to the real compiler.
//! Rebuilt from /repo's working tree by every check (path dependencies).
mod config;
mod replay;
mod ser_axcut;
mod ser_core;
mod ser_fun;
mod ser_parsed;

use printer::Print;
use serde_json::{Value, json};
use std::panic::{AssertUnwindSafe, catch_unwind};

pub fn panic_msg(e: Box<dyn std::any::Any + Send>) -> String {
    if let Some(s) = e.downcast_ref::<String>() {
        s.clone()
    } else if let Some(s) = e.downcast_ref::<&str>() {
        (*s).to_string()
    } else {
        "<non-string panic>".to_string()
    }
}

pub fn hash_str(s: &str) -> String {
    // FNV-1a 64: enough to compare artifacts across processes
    let mut h: u64 = 0xcbf29ce484222325;
    for b in s.as_bytes() {
        h ^= u64::from(*b);
        h = h.wrapping_mul(0x100000001b3);
    }
    format!("{h:016x}")
}

struct Stages {
    events: Vec<Value>,
}
impl Stages {
    fn run<T>(&mut self, stage: &str, f: impl FnOnce() -> Result<T, String>) -> Option<T> {
        match catch_unwind(AssertUnwindSafe(f)) {
            Ok(Ok(v)) => {
                self.events.push(json!({"stage": stage, "outcome": "ok", "msg": ""}));
                Some(v)
            }
            Ok(Err(m)) => {
                self.events.push(json!({"stage": stage, "outcome": "error", "msg": m}));
                None
            }
            Err(e) => {
                self.events.push(json!({"stage": stage, "outcome": "panic", "msg": panic_msg(e)}));
                None
            }
        }
    }
}

fn write(dir: &str, name: &str, ext: &str, s: &str) {
    std::fs::write(format!("{dir}/{name}.{ext}"), s).unwrap();
}

fn wants(emit: &[String], what: &str) -> bool {
    emit.iter().any(|e| e == what || e == "all")
}

/// Run the back half (linear AxCut -> three assembly texts) and record outcomes.
fn backends(st: &mut Stages, lin: &axcut::syntax::Prog, dir: &str, name: &str, emit: &[String]) -> usize {
    let mut nargs = lin.defs.first().map(|d| d.context.bindings.len()).unwrap_or(0);
    if wants(emit, "x86") {
        let p = lin.clone();
        if let Some((s, n)) = st.run("x86", || {
            let code = axcut2backend::coder::compile::<axcut2x86_64::Backend, _, _, _>(p);
            let n = code.number_of_arguments;
            Ok((axcut2x86_64::into_routine::into_x86_64_routine(code).print_to_string(None), n))
        }) {
            nargs = n;
            write(dir, name, "x86.asm", &s);
        }
    }
    if wants(emit, "a64") {
        let p = lin.clone();
        if let Some(s) = st.run("a64", || {
            let code = axcut2backend::coder::compile::<axcut2aarch64::Backend, _, _, _>(p);
            Ok(axcut2aarch64::into_routine::into_aarch64_routine(code).print_to_string(None))
        }) {
            write(dir, name, "a64.asm", &s);
        }
    }
    if wants(emit, "rv64") {
        let p = lin.clone();
        if let Some(s) = st.run("rv64", || {
            let code = axcut2backend::coder::compile::<axcut2rv64::Backend, _, _, _>(p);
            Ok(axcut2rv64::into_routine::into_rv64_routine(code))
        }) {
            write(dir, name, "rv64.asm", &s);
        }
    }
    nargs
}

fn pipeline_case(case: &Value, dir: &str, emit: &[String]) -> Value {
    let name = case["name"].as_str().unwrap().to_string();
    let kind = case["kind"].as_str().unwrap();
    let mut st = Stages { events: vec![] };
    let mut nargs = 0usize;
    let mut sizes = json!({});
    let mut main_valid = false;
    match kind {
        "fun" => {
            let src = match case.get("src").and_then(Value::as_str) {
                Some(s) => s.to_string(),
                None => std::fs::read_to_string(case["path"].as_str().unwrap()).unwrap(),
            };
            'chain: {
                let Some(parsed) = st.run("parse", || fun::parser::parse_module(&src).map_err(|e| format!("{e:?}"))) else { break 'chain };
                if wants(emit, "parsed") {
                    write(dir, &name, "parsed.json", &ser_parsed::prog_json(&parsed).to_string());
                }
                let Some(checked) = st.run("check", || parsed.check().map_err(|e| format!("{e:?}"))) else { break 'chain };
                // C18: later stages are only promised for a valid entry point
                main_valid = checked.defs.iter().any(|d| {
                    d.name == "main"
                        && d.context.bindings.len() <= 5
                        && d.context.bindings.iter().all(|b| b.chi == fun::syntax::context::Chirality::Prd && matches!(b.ty, fun::syntax::types::Ty::I64 { .. }))
                        && matches!(d.ret_ty, fun::syntax::types::Ty::I64 { .. })
                });
                if case.get("only_valid_main").and_then(Value::as_bool).unwrap_or(false) && !main_valid { break 'chain }
                if wants(emit, "fun") {
                    write(dir, &name, "fun.json", &ser_fun::prog_json(&checked).to_string());
                }
                let Some(core) = st.run("compile", || Ok(fun2core::program::compile_prog(checked))) else { break 'chain };
                if wants(emit, "core") {
                    write(dir, &name, "core.json", &ser_core::prog_json(&core).to_string());
                }
                if wants(emit, "coreuniq") {
                    let mut u = core.clone();
                    if st.run("uniquify", || { u.uniquify(); Ok(()) }).is_some() {
                        write(dir, &name, "coreuniq.json", &ser_core::prog_json(&u).to_string());
                    }
                }
                let Some(focused) = st.run("focus", || Ok(core.focus())) else { break 'chain };
                if wants(emit, "corefs") {
                    write(dir, &name, "corefs.json", &ser_core::fs_prog_json(&focused).to_string());
                }
                let Some(shrunk) = st.run("shrink", || Ok(core2axcut::program::shrink_prog(focused))) else { break 'chain };
                if wants(emit, "axcut") {
                    write(dir, &name, "axcut.json", &ser_axcut::prog_json(&shrunk).to_string());
                }
                let mut lin = shrunk;
                let Some(()) = st.run("linearize", || { lin.linearize(); Ok(()) }) else { break 'chain };
                if wants(emit, "axcutlin") {
                    write(dir, &name, "axcutlin.json", &ser_axcut::prog_json(&lin).to_string());
                }
                nargs = backends(&mut st, &lin, dir, &name, emit);
            }
        }
        "axcut" | "example" => {
            // a (non-linear or linear) AxCut program given as JSON or one of the repository's examples
            let built = st.run("build", || {
                Ok(if kind == "example" {
                    match case["which"].as_str().unwrap() {
                        "arith" => axcut_examples::arith_print(),
                        "closure" => axcut_examples::closure_print(),
                        "either" => axcut_examples::either_print(),
                        "list" => axcut_examples::list_print(),
                        "midi" => axcut_examples::midi_print(),
                        "mini" => axcut_examples::mini_print(),
                        "nonLinear" => axcut_examples::non_linear_print(),
                        "quad" => axcut_examples::quad_print(),
                        o => return Err(format!("unknown example {o}")),
                    }
                } else {
                    let v: Value = match case.get("prog") {
                        Some(p) => p.clone(),
                        None => serde_json::from_str(&std::fs::read_to_string(case["path"].as_str().unwrap()).unwrap()).unwrap(),
                    };
                    ser_axcut::prog_from_json(&v)
                })
            });
            if let Some(p) = built {
                let linear_in = case.get("linear").and_then(Value::as_bool).unwrap_or(false);
                if wants(emit, "axcut") {
                    write(dir, &name, "axcut.json", &ser_axcut::prog_json(&p).to_string());
                }
                let mut lin = p;
                let ok = if linear_in { true } else { st.run("linearize", || { lin.linearize(); Ok(()) }).is_some() };
                if ok {
                    if wants(emit, "axcutlin") {
                        write(dir, &name, "axcutlin.json", &ser_axcut::prog_json(&lin).to_string());
                    }
                    nargs = backends(&mut st, &lin, dir, &name, emit);
                }
            }
        }
        o => panic!("unknown case kind {o}"),
    }
    for ext in ["x86.asm", "a64.asm", "rv64.asm"] {
        if let Ok(s) = std::fs::read_to_string(format!("{dir}/{name}.{ext}")) {
            sizes[ext] = json!({"lines": s.lines().count(), "hash": hash_str(&s)});
        }
    }
    json!({"name": name, "kind": kind, "nargs": nargs, "stages": st.events, "sizes": sizes, "main_valid": main_valid})
}

fn main() {
    let args: Vec<String> = std::env::args().collect();
    // silence the default panic printer: panics are data here
    std::panic::set_hook(Box::new(|_| {}));
    match args.get(1).map(String::as_str) {
        Some("config") => {
            let dir = &args[2];
            std::fs::create_dir_all(dir).unwrap();
            write(dir, "x86", "config.json", &config::x86().to_string());
            write(dir, "a64", "config.json", &config::a64().to_string());
            write(dir, "rv64", "config.json", &config::rv64().to_string());
        }
        Some("pipeline") => {
            // sccv pipeline <list.json> <outdir> <emit,comma,separated>
            let list: Value = serde_json::from_str(&std::fs::read_to_string(&args[2]).unwrap()).unwrap();
            let dir = &args[3];
            let emit: Vec<String> = args.get(4).map(|s| s.split(',').map(str::to_string).collect()).unwrap_or_else(|| vec!["all".into()]);
            std::fs::create_dir_all(dir).unwrap();
            let mut index = vec![];
            for case in list.as_array().unwrap() {
                index.push(pipeline_case(case, dir, &emit));
            }
            write(dir, "index", "json", &Value::Array(index).to_string());
        }
        Some("driver-replay") => {
            // sccv driver-replay <spec.json> <workdir> <out.ndjson>: execute request histories on fresh Drivers in this process
            let spec: Value = serde_json::from_str(&std::fs::read_to_string(&args[2]).unwrap()).unwrap();
            let out_path = std::fs::canonicalize(std::path::Path::new(&args[4]).parent().unwrap()).unwrap().join(std::path::Path::new(&args[4]).file_name().unwrap());
            std::fs::create_dir_all(&args[3]).unwrap();
            std::env::set_current_dir(&args[3]).unwrap();
            replay::driver_replay(&spec, &out_path);
        }
        Some("check-files") => {
            // sccv check-files <list.json> <out.json>: Driver::checked on files given by path (bytes as they are on disk)
            let list: Value = serde_json::from_str(&std::fs::read_to_string(&args[2]).unwrap()).unwrap();
            let mut out = vec![];
            for p in list.as_array().unwrap() {
                let path = std::path::PathBuf::from(p.as_str().unwrap());
                let r = catch_unwind(AssertUnwindSafe(|| {
                    let mut d = driver::Driver::new();
                    d.checked(&path).map(|_| ()).map_err(|e| format!("{e:?}"))
                }));
                let (outcome, msg) = match r {
                    Ok(Ok(())) => ("ok", String::new()),
                    Ok(Err(m)) => ("error", m),
                    Err(e) => ("panic", panic_msg(e)),
                };
                out.push(json!({"path": p, "outcome": outcome, "msg": msg}));
            }
            std::fs::write(&args[3], Value::Array(out).to_string()).unwrap();
        }
        Some("fmt-roundtrip") => {
            // sccv fmt-roundtrip <spec.json> <out.ndjson>
            let spec: Value = serde_json::from_str(&std::fs::read_to_string(&args[2]).unwrap()).unwrap();
            replay::fmt_roundtrip(&spec, std::path::Path::new(&args[3]));
        }
        Some("w64-vectors") => {
            // sccv w64-vectors <n> <seed> <out.json>: reference results of 64-bit arithmetic computed by Rust
            use rand::{Rng, SeedableRng};
            let n: usize = args[2].parse().unwrap();
            let mut rng = rand::rngs::StdRng::seed_from_u64(args[3].parse().unwrap());
            let special: Vec<i64> = vec![0, 1, -1, 2, -2, 10, -10, 255, 256, 65535, 65536, -65536, i32::MAX as i64, i32::MIN as i64,
                (i32::MAX as i64) + 1, u32::MAX as i64, (u32::MAX as i64) + 1, i64::MAX, i64::MIN, i64::MIN + 1, i64::MAX - 1,
                1 << 47, -(1 << 47), 1 << 48, 0x0000ffff0000ffff, 0x7fff0000ffff0000, 1000000000000000000, -999999999999999999];
            let mut out = vec![];
            for k in 0..n {
                let pick = |rng: &mut rand::rngs::StdRng| -> i64 {
                    match rng.gen_range(0..4) {
                        0 => special[rng.gen_range(0..special.len())],
                        1 => rng.gen_range(-1000..1000),
                        2 => rng.r#gen::<i64>() >> rng.gen_range(0..63),
                        _ => rng.r#gen::<i64>(),
                    }
                };
                let (a, b) = if k < special.len() * special.len() && k < n / 2 { (special[k / special.len()], special[k % special.len()]) } else { (pick(&mut rng), pick(&mut rng)) };
                let divdef = b != 0 && !(a == i64::MIN && b == -1);
                out.push(json!({"a": ser_axcut::limbs(a), "b": ser_axcut::limbs(b),
                    "add": ser_axcut::limbs(a.wrapping_add(b)), "sub": ser_axcut::limbs(a.wrapping_sub(b)), "mul": ser_axcut::limbs(a.wrapping_mul(b)),
                    "divdef": divdef, "div": ser_axcut::limbs(if divdef { a / b } else { 0 }), "rem": ser_axcut::limbs(if divdef { a % b } else { 0 }),
                    "lt": a < b, "le": a <= b, "dec": a.to_string(), "low8": (a as u64 & 0xff), "neg": ser_axcut::limbs(a.wrapping_neg()),
                    "and": ser_axcut::limbs(a & b), "or": ser_axcut::limbs(a | b), "xor": ser_axcut::limbs(a ^ b),
                    "sh": (b as u64 & 63), "shl": ser_axcut::limbs(((a as u64) << (b as u64 & 63)) as i64),
                    "shr": ser_axcut::limbs(((a as u64) >> (b as u64 & 63)) as i64), "sar": ser_axcut::limbs(a >> (b as u64 & 63))}));
            }
            std::fs::write(&args[4], Value::Array(out).to_string()).unwrap();
        }
        Some("cdriver") => {
            // sccv cdriver <dir> <max number of arguments>: instantiate the repository's own C driver and io runtime
            let dir = &args[2];
            std::fs::create_dir_all(dir).unwrap();
            std::env::set_current_dir(dir).unwrap();
            let maxn: usize = args[3].parse().unwrap();
            let mut out = vec![];
            for n in 0..=maxn {
                let p = driver::generate_c_driver(n, None);
                out.push(json!({"nargs": n, "path": std::fs::canonicalize(p).unwrap()}));
            }
            let io = std::fs::canonicalize(driver::generate_io_runtime()).unwrap();
            println!("{}", json!({"drivers": out, "io": io}));
        }
        _ => {
            eprintln!("usage: sccv config <dir> | pipeline <list.json> <outdir> [emit] | cdriver <dir> <maxargs>");
            std::process::exit(2);
        }
    }
}
