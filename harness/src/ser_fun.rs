//! Serializer for checked Fun programs into a flat node table.
use fun::syntax::context::Chirality;
use fun::syntax::program::CheckedProgram;
use fun::syntax::terms::*;
use fun::syntax::types::{OptTyped, Ty};
use serde_json::{Value, json};
use std::collections::HashSet;

fn limbs(x: i64) -> Value { let u = x as u64; json!([(u & 0xffff), ((u >> 16) & 0xffff), ((u >> 32) & 0xffff), ((u >> 48) & 0xffff)]) }

pub struct Ser { pub nodes: Vec<Value>, pub codata: HashSet<String> }
impl Ser {
    fn push(&mut self, v: Value) -> usize { self.nodes.push(v); self.nodes.len() }
    // codata-ness is decided by the template name (instances may be named by any mangling scheme)
    fn cod_ty(&self, t: &Ty) -> bool { match t { Ty::Decl { name, .. } => self.codata.contains(name), _ => false } }
    fn cod(&self, t: &Term) -> bool { t.get_type().map(|ty| self.cod_ty(&ty)).unwrap_or(false) }
    fn args(&mut self, a: &fun::syntax::arguments::Arguments) -> Vec<usize> { a.entries.iter().map(|t| self.term(t)).collect() }
    fn clauses(&mut self, cs: &[Clause]) -> Value {
        let mut out = vec![];
        for c in cs {
            let b = self.term(&c.body);
            let names: Vec<String> = c.context.bindings.iter().map(|b| b.var.clone()).collect();
            out.push(json!({"xtor": c.xtor, "binders": names, "body": b}));
        }
        Value::Array(out)
    }
    pub fn term(&mut self, t: &Term) -> usize {
        let cod = self.cod(t);
        match t {
            Term::XVar(x) => self.push(json!({"k": "var", "name": x.var, "cns": x.chi == Some(Chirality::Cns), "cod": cod})),
            Term::Lit(l) => self.push(json!({"k": "lit", "w": limbs(l.lit), "cod": false})),
            Term::Op(o) => { let a = self.term(&o.fst); let b = self.term(&o.snd);
                let op = match o.op { BinOp::Div => "div", BinOp::Prod => "mul", BinOp::Rem => "rem", BinOp::Sum => "add", BinOp::Sub => "sub" };
                self.push(json!({"k": "op", "fst": a, "op": op, "snd": b, "cod": false})) }
            Term::IfC(i) => { let a = self.term(&i.fst); let b = match &i.snd { Some(x) => self.term(x), None => 0 };
                let t1 = self.term(&i.thenc); let e = self.term(&i.elsec);
                let sort = match i.sort { IfSort::Equal => "eq", IfSort::NotEqual => "ne", IfSort::Less => "lt", IfSort::LessOrEqual => "le", IfSort::Greater => "gt", IfSort::GreaterOrEqual => "ge" };
                self.push(json!({"k": "ifc", "sort": sort, "fst": a, "snd": b, "thenc": t1, "elsec": e, "cod": cod})) }
            Term::PrintI64(p) => { let a = self.term(&p.arg); let n = self.term(&p.next);
                self.push(json!({"k": "print", "nl": p.newline, "arg": a, "next": n, "cod": cod})) }
            Term::Let(l) => { let b = self.term(&l.bound_term); let i = self.term(&l.in_term);
                let vc = self.cod_ty(&l.var_ty);
                self.push(json!({"k": "let", "var": l.variable, "varcod": vc, "bound": b, "body": i, "cod": cod})) }
            Term::Call(c) => { let a = self.args(&c.args); self.push(json!({"k": "call", "name": c.name, "args": a, "cod": cod})) }
            Term::Constructor(c) => { let a = self.args(&c.args); self.push(json!({"k": "ctor", "name": c.id, "args": a, "cod": false})) }
            Term::Destructor(d) => { let s = self.term(&d.scrutinee); let a = self.args(&d.args);
                self.push(json!({"k": "dtor", "name": d.id, "scrut": s, "args": a, "cod": cod})) }
            Term::Case(c) => { let s = self.term(&c.scrutinee); let cl = self.clauses(&c.clauses);
                self.push(json!({"k": "case", "scrut": s, "clauses": cl, "cod": cod})) }
            Term::New(n) => { let cl = self.clauses(&n.clauses); self.push(json!({"k": "new", "clauses": cl, "cod": true})) }
            Term::Label(l) => { let b = self.term(&l.term); self.push(json!({"k": "label", "label": l.label, "body": b, "cod": cod})) }
            Term::Goto(g) => { let b = self.term(&g.term); self.push(json!({"k": "goto", "target": g.target, "arg": b, "cod": cod})) }
            Term::Exit(e) => { let a = self.term(&e.arg); self.push(json!({"k": "exit", "arg": a, "cod": cod})) }
            Term::Paren(p) => { let i = self.term(&p.inner); self.push(json!({"k": "paren", "inner": i, "cod": cod})) }
        }
    }
}

pub fn prog_json(p: &CheckedProgram) -> Value {
    let codata: HashSet<String> = p.codata_types.iter()
        .map(|c| c.name.chars().take_while(|ch| ch.is_alphanumeric() || *ch == '_').collect::<String>()).collect();
    let mut ser = Ser { nodes: vec![], codata };
    let mut defs = vec![];
    for d in &p.defs {
        let b = ser.term(&d.body);
        let params: Vec<Value> = d.context.bindings.iter().map(|b| json!({"name": b.var, "cns": b.chi == Chirality::Cns, "cod": ser.cod_ty(&b.ty)})).collect();
        defs.push(json!({"name": d.name, "params": params, "body": b}));
    }
    json!({"defs": defs, "nodes": ser.nodes})
}
