//! Serializer for Core programs (unfocused and focused) into a flat node table.
use core_lang::syntax::statements::*;
use core_lang::syntax::terms::*;
use core_lang::syntax::*;
use core_lang::syntax::arguments::Argument;
use serde_json::{Value, json};

pub fn key(i: &Identifier) -> String { format!("{}_{}", i.name, i.id) }
fn ty(t: &Ty) -> Value { match t { Ty::I64 => json!("i64"), Ty::Decl(n) => json!(n.name) } }
fn binding(b: &ContextBinding) -> Value {
    json!({"key": key(&b.var), "id": b.var.id, "name": b.var.name, "prd": b.chi == Chirality::Prd, "ty": ty(&b.ty)})
}
fn ctx(c: &TypingContext) -> Value { Value::Array(c.bindings.iter().map(binding).collect()) }
fn limbs(x: i64) -> Value { let u = x as u64; json!([(u & 0xffff), ((u >> 16) & 0xffff), ((u >> 32) & 0xffff), ((u >> 48) & 0xffff)]) }
fn opname(o: &BinOp) -> &'static str { match o { BinOp::Div => "div", BinOp::Prod => "mul", BinOp::Rem => "rem", BinOp::Sum => "add", BinOp::Sub => "sub" } }
fn sortname(s: &IfSort) -> &'static str { match s { IfSort::Equal => "eq", IfSort::NotEqual => "ne", IfSort::Less => "lt", IfSort::LessOrEqual => "le", IfSort::Greater => "gt", IfSort::GreaterOrEqual => "ge" } }

pub struct Ser { pub nodes: Vec<Value> }
impl Ser {
    fn push(&mut self, v: Value) -> usize { self.nodes.push(v); self.nodes.len() }
    fn var(&mut self, prd: bool, v: &Identifier, t: &Ty) -> usize {
        self.push(json!({"k": "var", "prd": prd, "key": key(v), "ty": ty(t)}))
    }
    // ---------- unfocused
    fn term<C: Chi>(&mut self, t: &Term<C>) -> usize {
        match t {
            Term::XVar(x) => self.var(x.prdcns.is_prd(), &x.var, &x.ty),
            Term::Literal(l) => self.push(json!({"k": "lit", "prd": true, "w": limbs(l.lit), "ty": "i64"})),
            Term::Op(o) => { let a = self.term(&*o.fst); let b = self.term(&*o.snd);
                self.push(json!({"k": "op", "prd": true, "fst": a, "op": opname(&o.op), "snd": b, "ty": "i64"})) }
            Term::Mu(m) => { let s = self.stmt(&m.statement);
                self.push(json!({"k": "mu", "prd": m.prdcns.is_prd(), "var": key(&m.variable), "varid": m.variable.id, "ty": ty(&m.ty), "stmt": s})) }
            Term::Xtor(x) => { let args = self.args(&x.args);
                self.push(json!({"k": "xtor", "prd": x.prdcns.is_prd(), "name": x.name.name, "args": args, "ty": ty(&x.ty)})) }
            Term::XCase(x) => {
                let mut cl = vec![];
                for c in &x.clauses { let b = self.stmt(&c.body); cl.push(json!({"xtor": c.xtor.name, "ctx": ctx(&c.context), "body": b})); }
                self.push(json!({"k": "xcase", "prd": x.prdcns.is_prd(), "clauses": cl, "ty": ty(&x.ty)})) }
        }
    }
    fn args(&mut self, a: &Arguments) -> Vec<usize> {
        a.entries.iter().map(|e| match e { Argument::Producer(p) => self.term(p), Argument::Consumer(c) => self.term(c) }).collect()
    }
    fn stmt(&mut self, s: &Statement) -> usize {
        match s {
            Statement::Cut(c) => { let p = self.term(&*c.producer); let q = self.term(&*c.consumer);
                self.push(json!({"k": "cut", "p": p, "ty": ty(&c.ty), "c": q})) }
            Statement::Call(c) => { let args = self.args(&c.args); self.push(json!({"k": "call", "name": key(&c.name), "args": args})) }
            Statement::IfC(i) => { let a = self.term(&*i.fst); let b = match &i.snd { Some(x) => self.term(&**x), None => 0 };
                let t = self.stmt(&i.thenc); let e = self.stmt(&i.elsec);
                self.push(json!({"k": "ifc", "sort": sortname(&i.sort), "fst": a, "snd": b, "thenc": t, "elsec": e})) }
            Statement::PrintI64(p) => { let a = self.term(&*p.arg); let n = self.stmt(&p.next);
                self.push(json!({"k": "print", "nl": p.newline, "arg": a, "next": n})) }
            Statement::Exit(e) => { let a = self.term(&*e.arg); self.push(json!({"k": "exit", "arg": a})) }
        }
    }
    // ---------- focused
    fn fs_ctx_args(&mut self, c: &TypingContext) -> Vec<usize> {
        c.bindings.iter().map(|b| self.var(b.chi == Chirality::Prd, &b.var, &b.ty)).collect()
    }
    fn fs_term<C: Chi>(&mut self, t: &FsTerm<C>) -> usize {
        match t {
            FsTerm::XVar(x) => self.var(x.prdcns.is_prd(), &x.var, &x.ty),
            FsTerm::Literal(l) => self.push(json!({"k": "lit", "prd": true, "w": limbs(l.lit), "ty": "i64"})),
            FsTerm::Op(o) => { let a = self.var(true, &o.fst, &Ty::I64); let b = self.var(true, &o.snd, &Ty::I64);
                self.push(json!({"k": "op", "prd": true, "fst": a, "op": opname(&o.op), "snd": b, "ty": "i64"})) }
            FsTerm::Mu(m) => { let s = self.fs_stmt(&m.statement);
                self.push(json!({"k": "mu", "prd": m.prdcns.is_prd(), "var": key(&m.variable), "varid": m.variable.id, "ty": ty(&m.ty), "stmt": s})) }
            FsTerm::Xtor(x) => { let args = self.fs_ctx_args(&x.args);
                self.push(json!({"k": "xtor", "prd": x.prdcns.is_prd(), "name": x.name.name, "args": args, "ty": ty(&x.ty)})) }
            FsTerm::XCase(x) => {
                let mut cl = vec![];
                for c in &x.clauses { let b = self.fs_stmt(&c.body); cl.push(json!({"xtor": c.xtor.name, "ctx": ctx(&c.context), "body": b})); }
                self.push(json!({"k": "xcase", "prd": x.prdcns.is_prd(), "clauses": cl, "ty": ty(&x.ty)})) }
        }
    }
    fn fs_stmt(&mut self, s: &FsStatement) -> usize {
        match s {
            FsStatement::Cut(c) => { let p = self.fs_term(&*c.producer); let q = self.fs_term(&*c.consumer);
                self.push(json!({"k": "cut", "p": p, "ty": ty(&c.ty), "c": q})) }
            FsStatement::Call(c) => { let args = self.fs_ctx_args(&c.args); self.push(json!({"k": "call", "name": key(&c.name), "args": args})) }
            FsStatement::IfC(i) => { let a = self.var(true, &i.fst, &Ty::I64);
                let b = match &i.snd { Some(x) => self.var(true, x, &Ty::I64), None => 0 };
                let t = self.fs_stmt(&i.thenc); let e = self.fs_stmt(&i.elsec);
                self.push(json!({"k": "ifc", "sort": sortname(&i.sort), "fst": a, "snd": b, "thenc": t, "elsec": e})) }
            FsStatement::PrintI64(p) => { let a = self.var(true, &p.arg, &Ty::I64); let n = self.fs_stmt(&p.next);
                self.push(json!({"k": "print", "nl": p.newline, "arg": a, "next": n})) }
            FsStatement::Exit(e) => { let a = self.var(true, &e.var, &Ty::I64); self.push(json!({"k": "exit", "arg": a})) }
        }
    }
}

fn decls(p_data: &[DataDeclaration], p_codata: &[CodataDeclaration]) -> (Value, Value) {
    let d: Vec<Value> = p_data.iter().map(|t| json!({"name": t.name.name,
        "xtors": t.xtors.iter().map(|x| json!({"name": x.name.name, "args": ctx(&x.args)})).collect::<Vec<_>>()})).collect();
    let c: Vec<Value> = p_codata.iter().map(|t| json!({"name": t.name.name,
        "xtors": t.xtors.iter().map(|x| json!({"name": x.name.name, "args": ctx(&x.args)})).collect::<Vec<_>>()})).collect();
    (Value::Array(d), Value::Array(c))
}

pub fn prog_json(p: &Prog) -> Value {
    let mut ser = Ser { nodes: vec![] };
    let mut defs = vec![];
    for d in &p.defs { let b = ser.stmt(&d.body); defs.push(json!({"name": key(&d.name), "ctx": ctx(&d.context), "body": b})); }
    let (d, c) = decls(&p.data_types, &p.codata_types);
    json!({"defs": defs, "data": d, "codata": c, "nodes": ser.nodes, "max_id": p.max_id})
}
pub fn fs_prog_json(p: &FsProg) -> Value {
    let mut ser = Ser { nodes: vec![] };
    let mut defs = vec![];
    for d in &p.defs { let b = ser.fs_stmt(&d.body); defs.push(json!({"name": key(&d.name), "ctx": ctx(&d.context), "body": b})); }
    let (d, c) = decls(&p.data_types, &p.codata_types);
    json!({"defs": defs, "data": d, "codata": c, "nodes": ser.nodes, "max_id": p.max_id})
}
