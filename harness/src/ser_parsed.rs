//! Serializer for *parsed* (unchecked) Fun programs: the input of spec/FunTyping.tla (C15) and the tree compared
//! by the formatter round trip (C16; source positions are not part of it).
use fun::syntax::context::{Chirality, TypingContext};
use fun::syntax::declarations::Declaration;
use fun::syntax::program::Program;
use fun::syntax::terms::*;
use fun::syntax::types::{Ty, TypeArgs};
use serde_json::{Value, json};

fn limbs(x: i64) -> Value {
    let u = x as u64;
    json!([(u & 0xffff), ((u >> 16) & 0xffff), ((u >> 32) & 0xffff), ((u >> 48) & 0xffff)])
}
pub fn ty(t: &Ty) -> Value {
    match t {
        Ty::I64 { .. } => json!({"n": "i64", "a": []}),
        Ty::Decl { name, type_args, .. } => json!({"n": name, "a": targs(type_args)}),
    }
}
fn targs(a: &TypeArgs) -> Value {
    Value::Array(a.args.iter().map(ty).collect())
}
fn ctx(c: &TypingContext) -> Value {
    Value::Array(c.bindings.iter().map(|b| json!({"name": b.var, "cns": b.chi == Chirality::Cns, "ty": ty(&b.ty)})).collect())
}

pub struct Ser {
    pub nodes: Vec<Value>,
}
impl Ser {
    fn push(&mut self, v: Value) -> usize {
        self.nodes.push(v);
        self.nodes.len()
    }
    fn args(&mut self, a: &fun::syntax::arguments::Arguments) -> Vec<usize> {
        a.entries.iter().map(|t| self.term(t)).collect()
    }
    fn clauses(&mut self, cs: &[Clause]) -> Value {
        let mut out = vec![];
        for c in cs {
            let b = self.term(&c.body);
            out.push(json!({"xtor": c.xtor, "binders": c.context_names.bindings, "body": b}));
        }
        Value::Array(out)
    }
    pub fn term(&mut self, t: &Term) -> usize {
        match t {
            Term::XVar(x) => self.push(json!({"k": "var", "name": x.var})),
            Term::Lit(l) => self.push(json!({"k": "lit", "w": limbs(l.lit)})),
            Term::Op(o) => {
                let a = self.term(&o.fst);
                let b = self.term(&o.snd);
                let op = match o.op {
                    BinOp::Div => "div",
                    BinOp::Prod => "mul",
                    BinOp::Rem => "rem",
                    BinOp::Sum => "add",
                    BinOp::Sub => "sub",
                };
                self.push(json!({"k": "op", "fst": a, "op": op, "snd": b}))
            }
            Term::IfC(i) => {
                let a = self.term(&i.fst);
                let b = match &i.snd {
                    Some(x) => self.term(x),
                    None => 0,
                };
                let t1 = self.term(&i.thenc);
                let e = self.term(&i.elsec);
                let sort = match i.sort {
                    IfSort::Equal => "eq",
                    IfSort::NotEqual => "ne",
                    IfSort::Less => "lt",
                    IfSort::LessOrEqual => "le",
                    IfSort::Greater => "gt",
                    IfSort::GreaterOrEqual => "ge",
                };
                self.push(json!({"k": "ifc", "sort": sort, "fst": a, "snd": b, "thenc": t1, "elsec": e}))
            }
            Term::PrintI64(p) => {
                let a = self.term(&p.arg);
                let n = self.term(&p.next);
                self.push(json!({"k": "print", "nl": p.newline, "arg": a, "next": n}))
            }
            Term::Let(l) => {
                let b = self.term(&l.bound_term);
                let i = self.term(&l.in_term);
                self.push(json!({"k": "let", "var": l.variable, "ty": ty(&l.var_ty), "bound": b, "body": i}))
            }
            Term::Call(c) => {
                let a = self.args(&c.args);
                self.push(json!({"k": "call", "name": c.name, "args": a}))
            }
            Term::Constructor(c) => {
                let a = self.args(&c.args);
                self.push(json!({"k": "ctor", "name": c.id, "args": a}))
            }
            Term::Destructor(d) => {
                let s = self.term(&d.scrutinee);
                let a = self.args(&d.args);
                self.push(json!({"k": "dtor", "name": d.id, "targs": targs(&d.type_args), "scrut": s, "args": a}))
            }
            Term::Case(c) => {
                let s = self.term(&c.scrutinee);
                let cl = self.clauses(&c.clauses);
                self.push(json!({"k": "case", "targs": targs(&c.type_args), "scrut": s, "clauses": cl}))
            }
            Term::New(n) => {
                let cl = self.clauses(&n.clauses);
                self.push(json!({"k": "new", "clauses": cl}))
            }
            Term::Label(l) => {
                let b = self.term(&l.term);
                self.push(json!({"k": "label", "label": l.label, "body": b}))
            }
            Term::Goto(g) => {
                let b = self.term(&g.term);
                self.push(json!({"k": "goto", "target": g.target, "arg": b}))
            }
            Term::Exit(e) => {
                let a = self.term(&e.arg);
                self.push(json!({"k": "exit", "arg": a}))
            }
            Term::Paren(p) => {
                let i = self.term(&p.inner);
                self.push(json!({"k": "paren", "inner": i}))
            }
        }
    }
}

pub fn prog_json(p: &Program) -> Value {
    let mut ser = Ser { nodes: vec![] };
    let (mut data, mut codata, mut defs) = (vec![], vec![], vec![]);
    let mut order = vec![];
    for d in &p.declarations {
        match d {
            Declaration::Data(t) => {
                order.push(json!(["data", t.name]));
                data.push(json!({"name": t.name, "params": t.type_params.bindings,
                    "xtors": t.ctors.iter().map(|x| json!({"name": x.name, "args": ctx(&x.args)})).collect::<Vec<_>>()}));
            }
            Declaration::Codata(t) => {
                order.push(json!(["codata", t.name]));
                codata.push(json!({"name": t.name, "params": t.type_params.bindings,
                    "xtors": t.dtors.iter().map(|x| json!({"name": x.name, "args": ctx(&x.args), "ret": ty(&x.cont_ty)})).collect::<Vec<_>>()}));
            }
            Declaration::Def(f) => {
                order.push(json!(["def", f.name]));
                let b = ser.term(&f.body);
                defs.push(json!({"name": f.name, "params": ctx(&f.context), "ret": ty(&f.ret_ty), "body": b}));
            }
        }
    }
    json!({"data": data, "codata": codata, "defs": defs, "nodes": ser.nodes, "order": order})
}
