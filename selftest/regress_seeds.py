#!/usr/bin/env python3
"""Re-runs every confirmed seeded change against the check(s) recorded in its meta.json and every benign change against the
checks recorded in DESIGN §0.4b; prints one line per change.  A seeded change must make its first recorded check exit 1, a benign
change must leave all its checks at 0.  Exit 0 iff everything is as recorded (this is a selftest, not a registered check)."""
import json, os, re, subprocess, sys
V = os.path.join(os.path.dirname(os.path.abspath(__file__)), "..")
only = set(sys.argv[1:])
bad = 0
BENIGN = {"B01": "C06 C13 C14", "B02": "C09 C10", "B03": "C02 C14 C17", "B04": "C02 C03 C19", "B05": "C07 C08 C13", "B06": "C16 C18 C20",
          "B07": "C06 C13 C20", "B08": "C11", "B09": "C15", "B10": "C17 C16", "B11": "C05 C06", "B12": "C04 C19", "B13": "C09 C10",
          "B14": "C02 C12 C14", "B15": "C06 C07 C08", "B16": "C13 C06 C07", "B18": "C02 C04", "B19": "C04 C05", "B21": "C06 C14", "B23": "C09", "B24": "C07 C14", "B25": "C08 C14", "B26": "C02 C04", "B28": "C05 C11", "B31": "C01 C16", "B32": "C07 C14", "B41": "C15 C16 C18", "B42": "C02 C03 C05", "B43": "C06 C07 C11", "B44": "C20 C18",
          "B51": "C09 C10 C11 C06 C07 C08", "B52": "C13 C06 C07 C14 C20", "B53": "C17 C14", "B54": "C19 C02 C03 C04"}
jobs = []
for d in sorted(os.listdir(os.path.join(V, "seeded"))):
    m = json.load(open(os.path.join(V, "seeded", d, "meta.json")))
    runs = m.get("confirmed", {}).get("checks_run") or ["./check %s --tier quick" % d[:3]]
    det = " ".join(m.get("confirmed", {}).get("detected_by", []))
    # the check expected to fire: the first recorded one that is named in detected_by, else the first
    ids = [re.search(r"C\d\d", r).group(0) for r in runs]
    first = next((i for i in ids if i in det), ids[0])
    jobs.append((d, os.path.join(V, "seeded", d, "patch.diff"), [first], 1))
for d, cs in BENIGN.items():
    jobs.append((d, os.path.join(V, "benign", d, "patch.diff"), cs.split(), 0))
for name, patch, checks, want in jobs:
    if only and name not in only:
        continue
    r = subprocess.run([os.path.join(V, "selftest", "try_seed.sh"), patch] + checks, env=dict(os.environ, SKIP_TESTS="1"),
                       stdout=subprocess.PIPE, stderr=subprocess.STDOUT, text=True)
    rcs = [int(x) for x in re.findall(r"^check C\d\d rc=(\d+)", r.stdout, re.M)]
    ok = len(rcs) == len(checks) and all(rc == want for rc in rcs)
    bad += not ok
    print("%-6s %-14s expected rc=%d got %s %s" % (name, " ".join(checks), want, rcs, "ok" if ok else "UNEXPECTED"), flush=True)
sys.exit(1 if bad else 0)
