#!/usr/bin/env python3
"""Debug helper: compare two stages of one Fun source file with spec/Equiv.tla.
usage: dbg_equiv.py file.sc stageA stageB [int args...]      (stages: fun core coreuniq corefs axcut axcutlin)"""
import json, os, sys
sys.path.insert(0, os.path.join(os.path.dirname(os.path.abspath(__file__)), "..", "lib"))
from common import *
import equiv


def main():
    src = open(sys.argv[1]).read()
    a, b = sys.argv[2], sys.argv[3]
    args = [int(x) for x in sys.argv[4:]]
    build_harness()
    work = fresh_dir(WORK, "dbg")
    lp = os.path.join(work, "list.json")
    json.dump([{"name": "p", "kind": "fun", "src": src}], open(lp, "w"))
    art = os.path.join(work, "art")
    sccv("pipeline", lp, art, "fun,core,coreuniq,corefs,axcut,axcutlin")
    idx = json.load(open(os.path.join(art, "index.json")))
    print({k: v for k, v in idx[0].items() if k != "src"})
    r = equiv.run_equiv(art, os.path.join(work, "eq"), a, b, [("p", args)], maxsteps=20000)
    for x in r["results"]:
        print(x)


if __name__ == "__main__":
    main()
