#!/usr/bin/env python3
"""Validates the ISA machine spec/X86.tla against the real processor (DESIGN §4.4b).
Generated and example programs are compiled by the real backend, assembled with a call to a register-dumping routine
(lib/hwtrace) at every @mark, linked with the repository's C driver and io.c and run natively.  The recorded register
snapshots are then passed to spec/Refine.tla, which compares them at every statement marker with the registers of its own
X86 machine: integers must be equal, heap pointers must be the same offset from the heap base.
Exit 0: every compared trace agrees; exit 2: some trace disagrees (the model of the processor is wrong) or a tool failed.
usage: hw_x86.py [programs per profile]"""
import json, os, struct, subprocess, sys
sys.path.insert(0, os.path.join(os.path.dirname(os.path.abspath(__file__)), "..", "lib"))
from common import *
import lockstep, refine, native, props

ORDER = ["r15", "r14", "r13", "r12", "r11", "r10", "r9", "r8", "rdi", "rsi", "rbp", "rbx", "rdx", "rcx", "rax", "rflags", "ret"]


def limbs(x):
    return [(x >> (16 * i)) & 0xffff for i in range(4)]


def main():
    n = int(sys.argv[1]) if len(sys.argv) > 1 else 30
    build_harness()
    work = fresh_dir(WORK, "hw")
    plan = [("base", n), ("spill", n // 2), ("objects", n // 2), ("tables", n // 3), ("printy", n // 3)]
    art, index, args = lockstep.build_batch(work, plan, with_examples=True, extra=props.loops_extra("quick"))
    nat = native.Native(work)
    objs = []
    for src in ("mark.S", "dump.c"):
        o = os.path.join(work, src + ".o")
        r = subprocess.run(["gcc", "-c", "-o", o, os.path.join(VERIF, "lib", "hwtrace", src)], stdout=subprocess.PIPE, stderr=subprocess.STDOUT, text=True)
        if r.returncode != 0:
            print("cannot build the tracer:", r.stdout)
            sys.exit(2)
        objs.append(o)
    cases, hw, skipped = [], {}, 0
    for nm, al in sorted(args.items()):
        so = lockstep.stage_outcome(index[nm], "x86")
        if so is None or so["outcome"] != "ok" or index[nm]["nargs"] > 5:
            skipped += 1
            continue
        obj, diag = nat.assemble(nm, open(os.path.join(art, nm + ".x86.asm")).read(), trace=True)
        if obj is None:
            print("assembler rejects", nm, diag[:300])
            sys.exit(2)
        b, diag = nat.link(nm, obj, index[nm]["nargs"], extra=objs)
        if b is None:
            print("link failed", nm, diag[:300])
            sys.exit(2)
        for a in al[:2]:
            tf = os.path.join(work, "native", "%s.%d.trace" % (nm, len(cases)))
            res = nat.run(b, a, env={"SCCV_HWTRACE": tf})
            if not res["ran"] or not os.path.exists(tf):
                skipped += 1
                continue
            raw = open(tf, "rb").read()
            os.remove(tf)
            evs = []
            for k in range(len(raw) // 136):
                w = struct.unpack("<17Q", raw[136 * k:136 * (k + 1)])
                evs.append({r: limbs(v) for r, v in zip(ORDER, w) if r not in ("rflags", "ret")})
            if len(evs) > 4000:     # keep TLC's constant small
                skipped += 1
                continue
            cases.append((nm, a))
            hw["%s@%s" % (nm, ",".join(map(str, a)))] = (evs, res)
    d = os.path.join(work, "tlc")
    env, ncases = refine.make_inputs(art, d, "x86", cases, maxsteps=400000, nblocks=160)
    tc = json.load(open(env["SCCV_CASES"]))
    for c in tc:
        c["hw"] = hw[c["name"]][0]
    # negative control: the same trace with one bit flipped in every register of one snapshot must be rejected
    ctl = next((dict(c) for c in tc if len(c["hw"]) >= 10), None)
    if ctl:
        ctl["name"] = "CONTROL-" + ctl["name"]
        ctl["hw"] = [dict(e) for e in ctl["hw"]]
        ctl["hw"][6] = {r: [w[0] ^ 1] + w[1:] for r, w in ctl["hw"][6].items()}
        tc.append(ctl)
        ncases += 1
    json.dump(tc, open(env["SCCV_CASES"], "w"))
    cfg = json.load(open(env["SCCV_CFG"])); cfg["strict_encode"] = False
    json.dump(cfg, open(env["SCCV_CFG"], "w"))
    r = tlc_batch("Refine", "Refine.cfg", d, env, ncases, timeout=3000)
    bad, marks, other = [], 0, {}
    control_rejected = None
    for x in r["results"]:
        if x["case"].startswith("CONTROL-"):
            control_rejected = x["tag"] == "hw"
            continue
        evs, res = hw[x["case"]]
        if x["tag"] == "hw":
            bad.append((x["case"], x["why"]))
        elif x["status"] == "done":
            if x["marks"] != len(evs):
                bad.append((x["case"], "the model passed %d statement markers, the processor %d" % (x["marks"], len(evs))))
            marks += x["marks"]
        else:
            other[x["status"] + ":" + x["tag"]] = other.get(x["status"] + ":" + x["tag"], 0) + 1
    print("hw_x86: %d traces (%d skipped), %d statement markers compared register by register, %d disagreements; other outcomes %s"
          % (len(cases), skipped, marks, len(bad), other))
    print("hw_x86: negative control (one bit flipped in one snapshot) %s" % ("rejected" if control_rejected else "NOT rejected"))
    if not control_rejected:
        bad.append(("control", "corrupted trace accepted"))
    for c, w in bad[:10]:
        print("  DISAGREE", c, w)
    json.dump({"traces": len(cases), "markers": marks, "disagreements": bad[:50], "other": other}, open(os.path.join(VERIF, "selftest", "hw_x86.last.json"), "w"), indent=1)
    sys.exit(2 if bad else 0)


if __name__ == "__main__":
    main()
