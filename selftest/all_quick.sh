#!/bin/sh
# usage: all_quick.sh [seed]: run every quick check once with the given seed; one line per check
cd "$(dirname "$0")/.."
export VERIF_SEED="${1:-1}"
for c in C01 C02 C03 C04 C05 C06 C07 C08 C09 C10 C11 C12 C13 C14 C15 C16 C17 C18 C19 C20; do
  s=$(date +%s)
  out=$(./check $c --tier quick 2>&1); rc=$?
  e=$(date +%s)
  echo "seed=$VERIF_SEED $c rc=$rc $((e-s))s $(echo "$out" | grep -E '^(VIOLATION|TOOL-ERROR)' | head -2 | cut -c1-200)"
done
