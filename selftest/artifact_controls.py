#!/usr/bin/env python3
"""Negative controls on recorded artifacts (DESIGN §4.4a): each corruption of an artifact the real compiler produced must be
rejected by the specification that validates it; the uncorrupted artifact must be accepted.  Prints one line per control and
exits 0 iff every control behaves as expected (2 otherwise: the binding is broken)."""
import copy, json, os, sys
sys.path.insert(0, os.path.join(os.path.dirname(os.path.abspath(__file__)), "..", "lib"))
from common import *
import lockstep, refine, stages

ok = True


def report(name, good, expect_reject, detail=""):
    global ok
    verdict = "rejected" if not good else "accepted"
    fine = (not good) == expect_reject
    ok = ok and fine
    print("%-58s %-9s %s %s" % (name, verdict, "OK" if fine else "UNEXPECTED", detail[:90]))


def main():
    build_harness()
    work = fresh_dir(WORK, "controls")
    art, index, args = lockstep.build_batch(work, [], with_examples=True)
    # ------------------------------------------------------------------ lock-step product (spec/Refine.tla)
    name, a = "ex_Lists", [[]]
    base = refine.load_code(art, name, "x86")

    def run_variant(tag, mutate):
        code = copy.deepcopy(base["code"])
        mutate(code)
        d = os.path.join(work, "v-" + tag)
        env, n = refine.make_inputs(art, d, "x86", [(name, [])])
        progs = json.load(open(env["SCCV_PROGS"]))
        progs[0]["code"] = code
        labels, _ = labels_of(code)
        progs[0]["labels"] = labels
        json.dump(progs, open(env["SCCV_PROGS"], "w"))
        cfg = json.load(open(env["SCCV_CFG"])); cfg["strict_encode"] = False
        json.dump(cfg, open(env["SCCV_CFG"], "w"))
        r = tlc_batch("Refine", "Refine.cfg", d, env, 1, timeout=600)
        x = r["results"][0]
        return x["status"] == "done", "%s %s" % (x["tag"], x["why"])
    good, why = run_variant("orig", lambda c: None)
    report("Refine: unmodified assembly of examples/Lists", good, False, why)

    def change_imm(c):
        i = next(k for k, ins in enumerate(c) if ins["op"] == "mov" and ins["a"][1]["k"] == "imm" and ins["a"][1]["s"] == 3)
        c[i]["a"][1]["w"] = [4, 0, 0, 0]
        c[i]["a"][1]["s"] = 4
    report("Refine: one literal changed (3 -> 4)", *(lambda g, w: (g, True, w))(*run_variant("imm", change_imm)))

    def drop_mark(c):
        i = [k for k, ins in enumerate(c) if ins["op"] == "mark"][5]
        del c[i]
    report("Refine: one @mark removed", *(lambda g, w: (g, True, w))(*run_variant("mark", drop_mark)))

    def drop_free_init(c):   # "initialize free pointer": mov free, heap; add free, 64  -> drop the add (free list = heap block)
        i = next(k for k, ins in enumerate(c) if ins["op"] == "add" and ins["a"][0].get("r") == "rbp" and ins["a"][1]["k"] == "imm" and ins["a"][1]["s"] == 64)
        del c[i]
    report("Refine: free-pointer initialisation removed", *(lambda g, w: (g, True, w))(*run_variant("free", drop_free_init)))

    def swap_two(c):         # swap "mov free, heap" with the following "add free, 64"
        i = next(k for k, ins in enumerate(c) if ins["op"] == "add" and ins["a"][0].get("r") == "rbp" and ins["a"][1]["k"] == "imm" and ins["a"][1]["s"] == 64)
        c[i - 1], c[i] = c[i], c[i - 1]
    report("Refine: two adjacent instructions swapped", *(lambda g, w: (g, True, w))(*run_variant("swap", swap_two)))
    # positive controls: equivalent instruction selections must be accepted (the models cover more than the backend prints)
    def R(r): return {"k": "reg", "r": r}
    def ret_by_pop(c):       # ret  ->  pop rcx; jmp rcx
        i = next(k for k, ins in enumerate(c) if ins["op"] == "ret")
        c[i:i + 1] = [{"op": "pop", "a": [R("rcx")], "q": False}, {"op": "jmp", "a": [R("rcx")], "q": False}]
    report("Refine: `ret` rewritten to `pop rcx; jmp rcx`", *(lambda g, w: (g, False, w))(*run_variant("popjmp", ret_by_pop)))

    def call_by_reg(c):      # call println_i64  ->  lea r11, [rel println_i64]; call r11   (r11 is caller-saved scratch there)
        i = next(k for k, ins in enumerate(c) if ins["op"] == "call")
        l = c[i]["a"][0]["l"]
        c[i:i + 1] = [{"op": "lea", "a": [R("r11"), {"k": "rel", "l": l}], "q": False}, {"op": "call", "a": [R("r11")], "q": False}]
    report("Refine: direct call rewritten to a call through r11", *(lambda g, w: (g, False, w))(*run_variant("callreg", call_by_reg)))

    def call_wrong_reg(c):   # the same, but the register holds the address of a block of the program instead
        i = next(k for k, ins in enumerate(c) if ins["op"] == "call")
        c[i:i + 1] = [{"op": "lea", "a": [R("r11"), {"k": "rel", "l": "cleanup"}], "q": False}, {"op": "call", "a": [R("r11")], "q": False}]
    report("Refine: call through a register holding another address", *(lambda g, w: (g, True, w))(*run_variant("callbad", call_wrong_reg)))
    # ------------------------------------------------------------------ stage traces (spec/TracePipeline.tla)
    tr = stages.stage_traces(art, index, names={"ex_Lists", "ex_Stream"})
    for t in tr:
        for e in t["events"]:
            if e["stage"] == "rv64":
                e["class"] = "capacity"
    bad = copy.deepcopy(tr[0]); bad["name"] += "-panic"
    bad["events"][3]["class"] = "panic"; bad["events"][3]["msg"] = "injected"
    skip = copy.deepcopy(tr[0]); skip["name"] += "-skipped-stage"
    del skip["events"][2]
    cap = copy.deepcopy(tr[0]); cap["name"] += "-bogus-capacity"
    for e in cap["events"]:
        if e["stage"] == "x86":
            e["class"] = "capacity"
    r = stages.run_stage_traces(os.path.join(work, "tr"), tr + [bad, skip, cap])
    byname = {x["case"]: x for x in r["results"]}
    report("TracePipeline: recorded stage trace", byname[tr[0]["name"]]["status"] == "accepted", False, byname[tr[0]["name"]]["why"])
    report("TracePipeline: one outcome flipped to panic", byname[bad["name"]]["status"] == "accepted", True, byname[bad["name"]]["why"])
    report("TracePipeline: one stage event removed", byname[skip["name"]]["status"] == "accepted", True, byname[skip["name"]]["why"])
    report("TracePipeline: capacity claimed within the limits", byname[cap["name"]]["status"] == "accepted", True, byname[cap["name"]]["why"])
    # ------------------------------------------------------------------ runtime contract (spec/RuntimeCheck.tla)
    obs = [{"name": "good", "kind": "print", "callee": "println_i64", "w": [65531, 65535, 65535, 65535], "stdout": "-5\n", "status": 0},
           {"name": "missing-newline", "kind": "print", "callee": "println_i64", "w": [65531, 65535, 65535, 65535], "stdout": "-5", "status": 0},
           {"name": "wrong-digit", "kind": "print", "callee": "print_i64", "w": [10, 0, 0, 0], "stdout": "11", "status": 0},
           {"name": "arity-ran-anyway", "kind": "arity", "callee": "", "w": [0, 0, 0, 0], "stdout": "7\n", "stderr": "", "status": 0, "ranlike": True}]
    d = os.path.join(work, "rt"); os.makedirs(d, exist_ok=True)
    json.dump(obs, open(os.path.join(d, "obs.json"), "w"))
    r = tlc_batch("RuntimeCheck", "RuntimeCheck.cfg", d, {"SCCV_CASES": os.path.join(d, "obs.json")}, len(obs), timeout=300)
    by = {x["case"]: x for x in r["results"]}
    report("RuntimeCheck: println_i64(-5) wrote '-5\\n'", by["good"]["status"] == "agree", False)
    for n in ("missing-newline", "wrong-digit", "arity-ran-anyway"):
        report("RuntimeCheck: " + n, by[n]["status"] == "agree", True, by[n]["why"])
    print("controls %s" % ("all behave as expected" if ok else "FAILED"))
    sys.exit(0 if ok else 2)


if __name__ == "__main__":
    main()
