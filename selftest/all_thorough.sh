#!/bin/sh
# usage: all_thorough.sh [ids...] : run the thorough tier of the given checks (default all), one line per check
cd "$(dirname "$0")/.." || exit 2
IDS="$*"; [ -z "$IDS" ] && IDS="C01 C02 C03 C04 C05 C06 C07 C08 C09 C10 C11 C12 C13 C14 C15 C16 C17 C18 C19 C20"
for c in $IDS; do
  S=$(date +%s)
  OUT=$(./check "$c" --tier thorough 2>&1); RC=$?
  E=$(( $(date +%s) - S ))
  echo "thorough $c rc=$RC ${E}s $(echo "$OUT" | grep -E '^(VIOLATION|TOOL-ERROR)' | head -3 | cut -c1-300)"
done
