#!/usr/bin/env python3
"""Oracle validation: spec/Word64.tla against Rust's i64 on boundary and random vectors (exit 0 = agrees, 2 = tool error)."""
import os, sys
sys.path.insert(0, os.path.join(os.path.dirname(os.path.abspath(__file__)), "..", "lib"))
from common import *
n = int(sys.argv[1]) if len(sys.argv) > 1 else 1200
build_harness()
wd = fresh_dir(WORK, "word64")
vp = os.path.join(wd, "vectors.json")
sccv("w64-vectors", str(n), str(seed()), vp)
r = tlc_batch("TestWord64", "TestWord64.cfg", wd, {"SCCV_CASES": vp}, n, timeout=1200)
bad = [x for x in r["results"] if x["status"] != "ok"]
print("Word64 conformance: %d vectors, %d disagreements (%.0fs)" % (n, len(bad), r["wall"]))
if bad:
    vs = json.load(open(vp))
    for x in bad[:5]:
        print("  vector %s disagrees on %s: %s" % (x["case"], x["why"], vs[int(x["case"]) - 1]))
    sys.exit(2)
