#!/bin/sh
# usage: try_seed.sh <patch.diff> <check id>... : apply a seeded change to /repo, run the repository's tests and the given
# quick checks, then restore /repo.  Prints one line per step.  Never commits anything to /repo.
P="$1"; shift
# exclusive lock: checks running elsewhere (vp run) wait with their harness build while /repo carries the seeded change
exec 9>"$HOME/.sccv_repo.lock"; flock 9; export SCCV_REPO_LOCK_HELD=1 SCCV_SEEDED_RUN=1
cd /repo || exit 2
git diff --quiet || { echo "repo not clean"; exit 2; }
git apply "$P" || { echo "patch does not apply"; exit 2; }
trap 'git -C /repo checkout -- . ; git -C /repo clean -fdq' EXIT   # clean: a change may add files
if [ -z "$SKIP_TESTS" ]; then
  T=$(timeout 1200 cargo test --workspace --no-fail-fast --offline 2>&1 | grep -E "^test result" | awk '{p+=$4; f+=$6} END {print p" passed "f" failed"}')
  echo "repo tests with patch: $T"
fi
cd /verif
for c in "$@"; do
  OUT=$(./check "$c" 2>&1); RC=$?
  echo "check $c rc=$RC"
  echo "$OUT" | grep -E "^(VIOLATION|KNOWN-FINDING|TOOL-ERROR)" | cut -c1-260 | head -5
done
