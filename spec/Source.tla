------------------------------- MODULE Source -------------------------------
(***************************************************************************)
(* C01: the source semantics (spec/FunMachine.tla) composed with the       *)
(* runtime contract (spec/Runtime.tla) predicts the bytes on standard      *)
(* output and the exit status of the native process; the recorded native   *)
(* observation is part of the case.  One behaviour per (program, argv).    *)
(***************************************************************************)
EXTENDS FunMachine, Runtime, Json, IOUtils

Progs == JsonDeserialize(IOEnv.SCCV_PROGS)   \* seq of [name, prog]
Cases == JsonDeserialize(IOEnv.SCCV_CASES)   \* seq of [name, p, args, argv, native: [ran, stdout, status]]
Cfg   == JsonDeserialize(IOEnv.SCCV_CFG)
NC == Len(Cases)
VARIABLE st

SInit(c) == [c |-> c, m |-> FInit(Progs[Cases[c].p].prog, Cases[c].args), status |-> "run", tag |-> "", why |-> "", expected |-> ""]

Verdict(s) ==
  LET m == s.m nat == Cases[s.c].native IN
  IF m.status = "fail" THEN [s EXCEPT !.status = "hypothesis", !.tag = "stuck", !.why = m.why]
  ELSE IF m.status # "done" THEN [s EXCEPT !.status = "excluded", !.tag = m.status]
  ELSE IF Cases[s.c].argv # ArgvOf(Cases[s.c].args) THEN [s EXCEPT !.status = "tool", !.why = "argv given to the process is not the decimal rendering of the arguments"]
  ELSE LET exp == RenderOut(m.out) IN
       IF ~nat.ran THEN [s EXCEPT !.status = "fail", !.tag = "termination", !.why = "native process did not terminate although the source semantics does", !.expected = exp]
       ELSE IF nat.stdout # exp THEN [s EXCEPT !.status = "fail", !.tag = "stdout", !.why = "standard output differs from the source semantics", !.expected = exp]
       ELSE IF nat.status # ExitStatus(m.result) THEN [s EXCEPT !.status = "fail", !.tag = "exit", !.why = "exit status is not the result modulo 256", !.expected = exp]
       ELSE [s EXCEPT !.status = "agree", !.expected = exp]

Init == st \in {SInit(c) : c \in 1..NC}
Run == /\ st.status = "run"
       /\ st' = IF st.m.status = "run"
                 THEN (IF st.m.steps > Cfg.maxsteps THEN [st EXCEPT !.m.status = "step-bound"]
                       ELSE [st EXCEPT !.m = FStep(Progs[Cases[st.c].p].prog, st.m)])
                 ELSE Verdict(st)
Report == /\ st.status \notin {"run", "reported"}
          /\ PrintT("RESULT " \o ToJson([case |-> Cases[st.c].name, status |-> st.status, tag |-> st.tag, why |-> st.why,
                                          steps |-> st.m.steps, nout |-> Len(st.m.out), expected |-> st.expected,
                                          expstatus |-> ExitStatus(st.m.result)]))
          /\ st' = [st EXCEPT !.status = "reported"]
Next == Run \/ Report
Spec == Init /\ [][Next]_st
=============================================================================
