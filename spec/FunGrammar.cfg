SPECIFICATION Spec
CONSTANT MaxDepth = 2
INVARIANT Emit
CHECK_DEADLOCK FALSE
