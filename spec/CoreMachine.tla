---------------------------- MODULE CoreMachine ----------------------------
(***************************************************************************)
(* M1: environment machine for Core (lambda-mu-mu~) with *dynamic*         *)
(* focusing (DESIGN Appendix A.2).  Runs unfocused translation output,     *)
(* uniquified programs and focused programs alike (focused programs are    *)
(* the special case in which every argument is a variable).                *)
(* Program record Q (ser_core.rs): nodes, defs, data, codata, defidx.      *)
(* Operators are prefixed C; the machine state is a record                 *)
(* [ctl, out, status, why, result, steps].                                 *)
(***************************************************************************)
EXTENDS Integers, Sequences, FiniteSets, TLC, Word64

CNode(Q, n) == Q.nodes[n]
CIsCodata(Q, ty) == \E i \in 1..Len(Q.codata) : Q.codata[i].name = ty
CHasDef(Q, name) == name \in DOMAIN Q.defidx
CDefBy(Q, name) == Q.defs[Q.defidx[name]]
CClauseOf(cls, x) == cls[CHOOSE i \in 1..Len(cls) : cls[i].xtor = x]
CHasClause(cls, x) == \E i \in 1..Len(cls) : cls[i].xtor = x

CIntV(w) == [t |-> "int", w |-> w]
CBinds(bs, vs) == [k \in {bs[i].key : i \in 1..Len(bs)} |-> vs[CHOOSE i \in 1..Len(bs) : bs[i].key = k /\ \A j \in (i+1)..Len(bs) : bs[j].key # k]]

CFail(s, why) == [s EXCEPT !.status = "fail", !.why = why]
CGo(s, ctl) == [s EXCEPT !.ctl = ctl, !.steps = s.steps + 1]
CStmt(n, env) == [k |-> "stmt", n |-> n, env |-> env]
CEvalP(n, env, kont) == [k |-> "evalp", n |-> n, env |-> env, kont |-> kont]
CApply(kont, v) == [k |-> "apply", kont |-> kont, v |-> v]
CArgs(done, rest, env, then) == [k |-> "args", done |-> done, rest |-> rest, env |-> env, then |-> then]
CCutNeg(P, E) == [k |-> "cutneg", P |-> P, E |-> E]

CBound(env, key) == key \in DOMAIN env

\* consumer term -> consumer value (no evaluation)
CConsVal(Q, n, env) ==
  LET t == CNode(Q, n)
  IN IF t.k = "var" THEN (IF CBound(env, t.key) THEN env[t.key] ELSE [t |-> "unbound", key |-> t.key])
     ELSE IF t.k = "mu" THEN [t |-> "mutilde", n |-> n, env |-> env]
     ELSE IF t.k = "xcase" THEN [t |-> "case", n |-> n, env |-> env]
     ELSE [t |-> "badcons"]
\* negative producer term -> value (no evaluation: by name)
CNegVal(Q, n, env) ==
  LET t == CNode(Q, n)
  IN IF t.k = "var" THEN (IF CBound(env, t.key) THEN env[t.key] ELSE [t |-> "unbound", key |-> t.key])
     ELSE IF t.k = "xcase" THEN [t |-> "cocase", n |-> n, env |-> env]
     ELSE IF t.k = "mu" THEN [t |-> "thunk", n |-> n, env |-> env]
     ELSE [t |-> "badneg"]

CIntOp(op, a, b) == IF op = "add" THEN Add(a, b) ELSE IF op = "sub" THEN Sub(a, b) ELSE IF op = "mul" THEN Mul(a, b)
                   ELSE IF op = "div" THEN SDiv(a, b) ELSE SRem(a, b)
CCmp(sort, a, b) == IF sort = "eq" THEN a = b ELSE IF sort = "ne" THEN a # b ELSE IF sort = "lt" THEN SLt(a, b)
                   ELSE IF sort = "le" THEN SLe(a, b) ELSE IF sort = "gt" THEN SLt(b, a) ELSE SLe(b, a)

CFinish(Q, s, then, vals) ==
  IF then.kind = "call" THEN
     IF ~CHasDef(Q, then.name) THEN CFail(s, "call of unknown definition " \o then.name)
     ELSE LET d == CDefBy(Q, then.name)
          IN IF Len(d.ctx) # Len(vals) THEN CFail(s, "call arity") ELSE CGo(s, CStmt(d.body, CBinds(d.ctx, vals)))
  ELSE IF then.kind = "ctor" THEN CGo(s, CApply(then.kont, [t |-> "data", tag |-> then.name, fs |-> vals]))
  ELSE IF then.kind = "dtorcut" THEN CGo(s, CCutNeg(then.P, [t |-> "dtor", name |-> then.name, args |-> vals]))
  ELSE IF then.kind = "dtorarg" THEN
     LET o == then.outer
     IN CGo(s, CArgs(Append(o.done, [t |-> "dtor", name |-> then.name, args |-> vals]), o.rest, o.env, o.then))
  ELSE IF then.kind = "op" THEN
     IF vals[1].t # "int" \/ vals[2].t # "int" THEN CFail(s, "operator on non-integers")
     ELSE IF then.op \in {"div", "rem"} /\ ~DivDefined(vals[1].w, vals[2].w) THEN [s EXCEPT !.status = "source-undefined"]
     ELSE CGo(s, CApply(then.kont, CIntV(CIntOp(then.op, vals[1].w, vals[2].w))))
  ELSE IF then.kind \in {"ifc", "print", "exit"} /\ \E i \in 1..Len(vals) : vals[i].t # "int" THEN
     CFail(s, then.kind \o " of a non-integer value")      \* ill-typed Core (e.g. after name capture): stuck, not a tool error
  ELSE IF then.kind = "ifc" THEN
     LET n == CNode(Q, then.n)
         a == vals[1].w
         b == IF Len(vals) = 2 THEN vals[2].w ELSE Zero
     IN CGo(s, CStmt(IF CCmp(n.sort, a, b) THEN n.thenc ELSE n.elsec, then.env))
  ELSE IF then.kind = "print" THEN
     LET n == CNode(Q, then.n)
     IN [CGo(s, CStmt(n.next, then.env)) EXCEPT !.out = Append(s.out, <<IF n.nl THEN "println_i64" ELSE "print_i64", vals[1].w>>)]
  ELSE IF then.kind = "exit" THEN [s EXCEPT !.status = "done", !.result = vals[1].w]
  ELSE CFail(s, "unknown continuation kind")

CStep(Q, s) ==
  LET ctl == s.ctl IN
  IF ctl.k = "stmt" THEN
     LET n == CNode(Q, ctl.n) env == ctl.env IN
     IF n.k = "cut" THEN
        IF ~CIsCodata(Q, n.ty) THEN
           LET E == CConsVal(Q, n.c, env)
           IN IF E.t \in {"unbound", "badcons"} THEN CFail(s, "cut: bad consumer at positive type (" \o E.t \o ")")
              ELSE CGo(s, CEvalP(n.p, env, E))
        ELSE
           LET cn == CNode(Q, n.c) P == CNegVal(Q, n.p, env)
           IN IF P.t \in {"unbound", "badneg"} THEN CFail(s, "cut: bad producer at codata type (" \o P.t \o ")")
              ELSE IF cn.k = "mu" THEN CGo(s, CStmt(cn.stmt, (cn.var :> P) @@ env))
              ELSE IF cn.k = "var" THEN
                   (IF CBound(env, cn.key) THEN CGo(s, CCutNeg(P, env[cn.key])) ELSE CFail(s, "unbound covariable " \o cn.key))
              ELSE IF cn.k = "xtor" THEN CGo(s, CArgs(<<>>, cn.args, env, [kind |-> "dtorcut", name |-> cn.name, P |-> P]))
              ELSE CFail(s, "cut: bad consumer at codata type")
     ELSE IF n.k = "call" THEN CGo(s, CArgs(<<>>, n.args, env, [kind |-> "call", name |-> n.name]))
     ELSE IF n.k = "ifc" THEN CGo(s, CArgs(<<>>, IF n.snd = 0 THEN <<n.fst>> ELSE <<n.fst, n.snd>>, env, [kind |-> "ifc", n |-> ctl.n, env |-> env]))
     ELSE IF n.k = "print" THEN CGo(s, CArgs(<<>>, <<n.arg>>, env, [kind |-> "print", n |-> ctl.n, env |-> env]))
     ELSE IF n.k = "exit" THEN CGo(s, CArgs(<<>>, <<n.arg>>, env, [kind |-> "exit"]))
     ELSE CFail(s, "unknown statement")
  ELSE IF ctl.k = "evalp" THEN
     LET p == CNode(Q, ctl.n) env == ctl.env IN
     IF p.k = "var" THEN (IF CBound(env, p.key) THEN CGo(s, CApply(ctl.kont, env[p.key])) ELSE CFail(s, "unbound variable " \o p.key))
     ELSE IF p.k = "lit" THEN CGo(s, CApply(ctl.kont, CIntV(p.w)))
     ELSE IF p.k = "mu" THEN CGo(s, CStmt(p.stmt, (p.var :> ctl.kont) @@ env))
     ELSE IF p.k = "op" THEN CGo(s, CArgs(<<>>, <<p.fst, p.snd>>, env, [kind |-> "op", op |-> p.op, kont |-> ctl.kont]))
     ELSE IF p.k = "xtor" THEN CGo(s, CArgs(<<>>, p.args, env, [kind |-> "ctor", name |-> p.name, kont |-> ctl.kont]))
     ELSE CFail(s, "evaluation of a non-positive producer")
  ELSE IF ctl.k = "apply" THEN
     LET E == ctl.kont v == ctl.v IN
     IF E.t = "mutilde" THEN LET m == CNode(Q, E.n) IN CGo(s, CStmt(m.stmt, (m.var :> v) @@ E.env))
     ELSE IF E.t = "case" THEN
        LET cls == CNode(Q, E.n).clauses
        IN IF v.t # "data" \/ ~CHasClause(cls, v.tag) THEN CFail(s, "case: no clause for value")
           ELSE LET cl == CClauseOf(cls, v.tag)
                IN IF Len(cl.ctx) # Len(v.fs) THEN CFail(s, "case: clause arity") ELSE CGo(s, CStmt(cl.body, CBinds(cl.ctx, v.fs) @@ E.env))
     ELSE IF E.t = "k_arg" THEN CGo(s, CArgs(Append(E.done, v), E.rest, E.env, E.then))
     ELSE CFail(s, "apply: consumer value of kind " \o E.t)
  ELSE IF ctl.k = "args" THEN
     IF ctl.rest = <<>> THEN CFinish(Q, s, ctl.then, ctl.done)
     ELSE LET an == Head(ctl.rest) a == CNode(Q, an) env == ctl.env rest == Tail(ctl.rest)
              push(v) == IF v.t \in {"unbound", "badneg", "badcons"} THEN CFail(s, "argument: " \o v.t)
                         ELSE CGo(s, CArgs(Append(ctl.done, v), rest, env, ctl.then))
          IN IF a.prd THEN
                IF CIsCodata(Q, a.ty) THEN push(CNegVal(Q, an, env))
                ELSE IF a.k = "var" THEN (IF CBound(env, a.key) THEN push(env[a.key]) ELSE CFail(s, "unbound variable " \o a.key))
                ELSE CGo(s, CEvalP(an, env, [t |-> "k_arg", done |-> ctl.done, rest |-> rest, env |-> env, then |-> ctl.then]))
             ELSE
                IF a.k = "xtor" THEN
                   CGo(s, CArgs(<<>>, a.args, env, [kind |-> "dtorarg", name |-> a.name,
                                                  outer |-> [done |-> ctl.done, rest |-> rest, env |-> env, then |-> ctl.then]]))
                ELSE IF a.k = "mu" /\ CIsCodata(Q, a.ty) THEN
                   \* bind(~mu x.s)[k] = <mu a.k(a) | ~mu x.s> at a codata type: ~mu is no covalue there, the rest of the
                   \* statement is passed to s by name (focus.rs, Bind for Mu<Cns>)
                   CGo(s, CStmt(a.stmt, (a.var :> [t |-> "kthunk", done |-> ctl.done, rest |-> rest, env |-> env, then |-> ctl.then]) @@ env))
                ELSE push(CConsVal(Q, an, env))
  ELSE IF ctl.k = "cutneg" THEN
     LET P == ctl.P E == ctl.E IN
     IF E.t = "mutilde" THEN LET m == CNode(Q, E.n) IN CGo(s, CStmt(m.stmt, (m.var :> P) @@ E.env))
     ELSE IF E.t = "dtor" THEN
        IF P.t = "cocase" THEN
           LET cls == CNode(Q, P.n).clauses
           IN IF ~CHasClause(cls, E.name) THEN CFail(s, "cocase: no clause for destructor")
              ELSE LET cl == CClauseOf(cls, E.name)
                   IN IF Len(cl.ctx) # Len(E.args) THEN CFail(s, "cocase: clause arity")
                      ELSE CGo(s, CStmt(cl.body, CBinds(cl.ctx, E.args) @@ P.env))
        ELSE IF P.t = "thunk" THEN LET m == CNode(Q, P.n) IN CGo(s, CStmt(m.stmt, (m.var :> E) @@ P.env))
        ELSE IF P.t = "kthunk" THEN CGo(s, CArgs(Append(P.done, E), P.rest, P.env, P.then))
        ELSE CFail(s, "cut at codata type: producer value of kind " \o P.t)
     ELSE CFail(s, "cut at codata type: consumer value of kind " \o E.t)
  ELSE CFail(s, "bad control")

CInit(Q, args) ==
  LET d == Q.defs[1]
  IN [ctl |-> CStmt(d.body, CBinds(d.ctx, [i \in 1..Len(d.ctx) |-> CIntV(args[i])])),
      out |-> <<>>, status |-> "run", why |-> "", result |-> Zero, steps |-> 0]
=============================================================================
