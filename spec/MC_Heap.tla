------------------------------ MODULE MC_Heap ------------------------------
EXTENDS AxCutHeap, Json
\* every generated history is printed (one line of JSON) for replay into the real backends
EmitHist == hist # <<>> => PrintT("HIST " \o ToJson(hist))
=============================================================================
