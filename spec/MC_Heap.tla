------------------------------ MODULE MC_Heap ------------------------------
EXTENDS AxCutHeap, Json
\* every generated history is printed (one line of JSON) for replay into the real backends
\* together with the abstract heap summary the design predicts after it (compared with the concrete heap of the generated code).
\* Only histories of at least EmitFrom actions are printed, and of those one in EmitOneIn (the last BFS level alone has millions).
CONSTANTS EmitFrom, EmitOneIn
EmitHist == (Len(hist) >= EmitFrom /\ (EmitOneIn = 1 \/ RandomElement(1..EmitOneIn) = 1)) =>
              PrintT("HIST " \o ToJson([h |-> hist, fin |-> [hp |-> hp.b, fp |-> fp.b, nlin |-> hv.nlinear, ndef |-> hv.ndeferred,
                                                              reach |-> hv.reach, F |-> hv.F]]))
=============================================================================
