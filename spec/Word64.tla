------------------------------ MODULE Word64 ------------------------------
(* 64-bit two's-complement words as 4 little-endian 16-bit limbs <<h0,h1,h2,h3>>.  *)
(* TLC integers are 32-bit, so no intermediate value here exceeds 2^31-1.          *)
EXTENDS Integers, Sequences, SequencesExt
B == 65536
W64 == [1..4 -> 0..65535]
Zero == <<0, 0, 0, 0>>
One  == <<1, 0, 0, 0>>
MinusOne == <<65535, 65535, 65535, 65535>>
MinW == <<0, 0, 0, 32768>>
MaxW == <<65535, 65535, 65535, 32767>>
IsNeg(a) == a[4] >= 32768
IsZero(a) == a = Zero
Not(a) == <<65535 - a[1], 65535 - a[2], 65535 - a[3], 65535 - a[4]>>
Add(a, b) ==
  LET s0 == a[1] + b[1]
      s1 == a[2] + b[2] + (s0 \div B)
      s2 == a[3] + b[3] + (s1 \div B)
      s3 == a[4] + b[4] + (s2 \div B)
  IN <<s0 % B, s1 % B, s2 % B, s3 % B>>
Neg(a) == Add(Not(a), One)
Sub(a, b) == Add(a, Neg(b))
\* small non-negative TLC integer (< 2^31) to word; negative handled via Neg
FromNat(n) == <<n % B, (n \div B) % B, 0, 0>>
FromInt(n) == IF n >= 0 THEN FromNat(n) ELSE Neg(FromNat(-n))
\* unsigned comparison, most significant limb first
ULt(a, b) ==
  \/ a[4] < b[4]
  \/ a[4] = b[4] /\ ( \/ a[3] < b[3]
                      \/ a[3] = b[3] /\ ( \/ a[2] < b[2]
                                          \/ a[2] = b[2] /\ a[1] < b[1]))
SLt(a, b) == IF IsNeg(a) # IsNeg(b) THEN IsNeg(a) ELSE ULt(a, b)
SLe(a, b) == a = b \/ SLt(a, b)
Bytes(a) == <<a[1] % 256, a[1] \div 256, a[2] % 256, a[2] \div 256,
                    a[3] % 256, a[3] \div 256, a[4] % 256, a[4] \div 256>>
RECURSIVE ColSum(_, _, _, _)
ColSum(x, y, k, i) == \* sum_{j=i..k} x[j]*y[k-j+1], indices within 1..8
  IF i > k THEN 0 ELSE x[i] * y[k - i + 1] + ColSum(x, y, k, i + 1)
Mul(a, b) ==
  LET x == Bytes(a)
      y == Bytes(b)
      c1 == ColSum(x, y, 1, 1)
      c2 == ColSum(x, y, 2, 1) + (c1 \div 256)
      c3 == ColSum(x, y, 3, 1) + (c2 \div 256)
      c4 == ColSum(x, y, 4, 1) + (c3 \div 256)
      c5 == ColSum(x, y, 5, 1) + (c4 \div 256)
      c6 == ColSum(x, y, 6, 1) + (c5 \div 256)
      c7 == ColSum(x, y, 7, 1) + (c6 \div 256)
      c8 == ColSum(x, y, 8, 1) + (c7 \div 256)
  IN <<(c1 % 256) + 256 * (c2 % 256), (c3 % 256) + 256 * (c4 % 256),
       (c5 % 256) + 256 * (c6 % 256), (c7 % 256) + 256 * (c8 % 256)>>
\* shift left by one bit, dropping the carry out of bit 63; Bit(a, i) for i in 0..63
Shl1(a) == LET t0 == 2 * a[1]
               t1 == 2 * a[2] + (t0 \div B)
               t2 == 2 * a[3] + (t1 \div B)
               t3 == 2 * a[4] + (t2 \div B)
           IN <<t0 % B, t1 % B, t2 % B, t3 % B>>
RECURSIVE P2(_)
P2(k) == IF k = 0 THEN 1 ELSE 2 * P2(k - 1)
Bit(a, i) == (a[(i \div 16) + 1] \div P2(i % 16)) % 2
\* bitwise operations, limb by limb and bit by bit (only used by instructions the backends emit rarely or not at all yet)
RECURSIVE BW16(_, _, _, _)
BW16(op, x, y, i) ==
  IF i = 16 THEN 0
  ELSE LET a == (x \div P2(i)) % 2
           b == (y \div P2(i)) % 2
           r == IF op = "and" THEN a * b ELSE IF op = "or" THEN (a + b) - (a * b) ELSE (a + b) % 2
       IN r * P2(i) + BW16(op, x, y, i + 1)
BitAnd(a, b) == <<BW16("and", a[1], b[1], 0), BW16("and", a[2], b[2], 0), BW16("and", a[3], b[3], 0), BW16("and", a[4], b[4], 0)>>
BitOr(a, b)  == <<BW16("or", a[1], b[1], 0), BW16("or", a[2], b[2], 0), BW16("or", a[3], b[3], 0), BW16("or", a[4], b[4], 0)>>
BitXor(a, b) == <<BW16("xor", a[1], b[1], 0), BW16("xor", a[2], b[2], 0), BW16("xor", a[3], b[3], 0), BW16("xor", a[4], b[4], 0)>>
\* shifts by k in 0..63
Shr1(a, top) == <<(a[1] \div 2) + (a[2] % 2) * 32768, (a[2] \div 2) + (a[3] % 2) * 32768, (a[3] \div 2) + (a[4] % 2) * 32768, (a[4] \div 2) + top * 32768>>
Shl(a, k) == FoldLeft(LAMBDA acc, i : Shl1(acc), a, [i \in 1..k |-> i])
Shr(a, k) == FoldLeft(LAMBDA acc, i : Shr1(acc, 0), a, [i \in 1..k |-> i])
Sar(a, k) == FoldLeft(LAMBDA acc, i : Shr1(acc, IF IsNeg(a) THEN 1 ELSE 0), a, [i \in 1..k |-> i])
Low32(a) == <<a[1], a[2], 0, 0>>
\* unsigned long division, restoring, MSB first: returns <<quotient, remainder>>
\* one step of restoring division on the pair <<q, r>> for bit i of n
UDivStep1(n, d, qr, i) ==
  LET r1 == Add(Shl1(qr[2]), <<Bit(n, i), 0, 0, 0>>)
      ge == ~ULt(r1, d)
  IN <<Add(Shl1(qr[1]), IF ge THEN One ELSE Zero), IF ge THEN Sub(r1, d) ELSE r1>>
BitsDown == [k \in 1..64 |-> 64 - k]
UDivMod(n, d) == FoldLeft(LAMBDA qr, i : UDivStep1(n, d, qr, i), <<Zero, Zero>>, BitsDown)
Abs(a) == IF IsNeg(a) THEN Neg(a) ELSE a   \* Abs(MinW) = MinW read as unsigned 2^63: fine
\* truncating signed division; undefined (the caller must exclude) for d = 0 and MinW / -1
DivDefined(a, d) == ~IsZero(d) /\ ~(a = MinW /\ d = MinusOne)
SDiv(a, d) == LET q == UDivMod(Abs(a), Abs(d))[1]
              IN IF IsNeg(a) # IsNeg(d) THEN Neg(q) ELSE q
SRem(a, d) == LET r == UDivMod(Abs(a), Abs(d))[2]
              IN IF IsNeg(a) THEN Neg(r) ELSE r
Low8(a) == a[1] % 256
\* decimal rendering
Digit == <<"0", "1", "2", "3", "4", "5", "6", "7", "8", "9">>
Ten == <<10, 0, 0, 0>>
RECURSIVE UDec(_)
UDec(a) == IF ULt(a, Ten) THEN Digit[a[1] + 1]
                 ELSE LET qr == UDivMod(a, Ten) IN UDec(qr[1]) \o Digit[qr[2][1] + 1]
ToDecimal(a) == IF IsNeg(a) THEN "-" \o UDec(Neg(a)) ELSE UDec(a)
=============================================================================
