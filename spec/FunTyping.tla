----------------------------- MODULE FunTyping -----------------------------
(***************************************************************************)
(* The declarative typing relation of Fun over the *parsed* syntax tree    *)
(* (harness/src/ser_parsed.rs), giving the verdict Accepts(P) that C15     *)
(* compares with the real type checker.  Types are records [n, a] (name,   *)
(* type arguments).  Checking is bidirectional: every term is checked      *)
(* against an expected monomorphic type in a context of bindings           *)
(* [name, cns, ty] with right-most shadowing; variables and covariables    *)
(* share one namespace.                                                    *)
(***************************************************************************)
EXTENDS Integers, Sequences, FiniteSets, TLC

I64 == [n |-> "i64", a |-> <<>>]

\* ---------------------------------------------------------------- declarations
HasData(P, nm) == \E i \in 1..Len(P.data) : P.data[i].name = nm
HasCodata(P, nm) == \E i \in 1..Len(P.codata) : P.codata[i].name = nm
DataOf(P, nm) == P.data[CHOOSE i \in 1..Len(P.data) : P.data[i].name = nm]
CodataOf(P, nm) == P.codata[CHOOSE i \in 1..Len(P.codata) : P.codata[i].name = nm]
Templates(P) == P.data \o P.codata
HasTemplate(P, nm) == HasData(P, nm) \/ HasCodata(P, nm)
TemplateOf(P, nm) == IF HasData(P, nm) THEN DataOf(P, nm) ELSE CodataOf(P, nm)
HasXtor(t, x) == \E i \in 1..Len(t.xtors) : t.xtors[i].name = x
XtorOf(t, x) == t.xtors[CHOOSE i \in 1..Len(t.xtors) : t.xtors[i].name = x]
\* the data (codata) template declaring constructor (destructor) x
DataWithCtor(P, x) == {i \in 1..Len(P.data) : HasXtor(P.data[i], x)}
CodataWithDtor(P, x) == {i \in 1..Len(P.codata) : HasXtor(P.codata[i], x)}
HasDef(P, f) == \E i \in 1..Len(P.defs) : P.defs[i].name = f
DefOf(P, f) == P.defs[CHOOSE i \in 1..Len(P.defs) : P.defs[i].name = f]

NoDup(s) == \A i, j \in 1..Len(s) : i # j => s[i] # s[j]
Names(s) == [i \in 1..Len(s) |-> s[i].name]

\* ---------------------------------------------------------------- types
RECURSIVE SubstTy(_, _, _)
SubstTy(ty, params, args) ==
  IF ty.a = <<>> /\ \E i \in 1..Len(params) : params[i] = ty.n
  THEN args[CHOOSE i \in 1..Len(params) : params[i] = ty.n]
  ELSE [n |-> ty.n, a |-> [i \in 1..Len(ty.a) |-> SubstTy(ty.a[i], params, args)]]

\* well-formed monomorphic type: declared template, right number of arguments, arguments well-formed, and the
\* instance's own xtor signatures well-formed after substitution (visited: instances already being checked)
RECURSIVE WFTy(_, _, _)
WFTy(P, ty, visited) ==
  IF ty.n = "i64" THEN ty.a = <<>>
  ELSE IF ty \in visited THEN TRUE
  ELSE /\ HasTemplate(P, ty.n)
       /\ LET t == TemplateOf(P, ty.n) v2 == visited \cup {ty}
          IN /\ Len(t.params) = Len(ty.a)
             /\ \A i \in 1..Len(ty.a) : WFTy(P, ty.a[i], v2)
             /\ \A x \in 1..Len(t.xtors) :
                  /\ \A k \in 1..Len(t.xtors[x].args) : WFTy(P, SubstTy(t.xtors[x].args[k].ty, t.params, ty.a), v2)
                  /\ ("ret" \in DOMAIN t.xtors[x] => WFTy(P, SubstTy(t.xtors[x].ret, t.params, ty.a), v2))
WF(P, ty) == WFTy(P, ty, {})

\* types mentioned inside a template: the name must be a template or one of the parameters (no arity check here)
RECURSIVE TemplateTyOK(_, _, _)
TemplateTyOK(P, ty, params) ==
  ty.n = "i64" \/ HasTemplate(P, ty.n) \/ (\E i \in 1..Len(params) : params[i] = ty.n)

\* ---------------------------------------------------------------- contexts
Visible(ctx, nm) == \E i \in 1..Len(ctx) : ctx[i].name = nm
Lookup(ctx, nm) == ctx[CHOOSE i \in 1..Len(ctx) : ctx[i].name = nm /\ \A j \in (i + 1)..Len(ctx) : ctx[j].name # nm]
Bind(nm, cns, ty) == [name |-> nm, cns |-> cns, ty |-> ty]

\* signature of an xtor of the instance ty: bindings with substituted types
InstArgs(t, x, ty) == LET s == XtorOf(t, x).args IN [k \in 1..Len(s) |-> Bind(s[k].name, s[k].cns, SubstTy(s[k].ty, t.params, ty.a))]
InstRet(t, x, ty) == SubstTy(XtorOf(t, x).ret, t.params, ty.a)

\* ---------------------------------------------------------------- terms
RECURSIVE Check(_, _, _, _)
RECURSIVE CheckArgs(_, _, _, _, _)
CheckArgs(P, ctx, args, sig, i) ==
  IF i > Len(sig) THEN TRUE
  ELSE LET a == P.nodes[args[i]] s == sig[i] IN
       /\ IF s.cns THEN /\ a.k = "var"
                        /\ Visible(ctx, a.name) /\ Lookup(ctx, a.name).cns /\ Lookup(ctx, a.name).ty = s.ty
                        /\ WF(P, s.ty)
          ELSE WF(P, s.ty) /\ Check(P, ctx, args[i], s.ty)
       /\ CheckArgs(P, ctx, args, sig, i + 1)

ClausesOK(P, ctx, t, ty, clauses, expectedOrRet) ==
  \* exactly one clause per xtor of the template, no others; binders distinct and as many as the signature;
  \* expectedOrRet = <<"fixed", ty>> (case: every body has the expected type) or <<"ret">> (new: the destructor's type)
  /\ Len(clauses) = Len(t.xtors)
  /\ \A x \in 1..Len(t.xtors) : Cardinality({c \in 1..Len(clauses) : clauses[c].xtor = t.xtors[x].name}) = 1
  /\ \A c \in 1..Len(clauses) :
       LET cl == clauses[c] IN
       /\ HasXtor(t, cl.xtor)
       /\ NoDup(cl.binders)
       /\ Len(cl.binders) = Len(XtorOf(t, cl.xtor).args)
       /\ LET sig == InstArgs(t, cl.xtor, ty)
              ctx2 == ctx \o [k \in 1..Len(sig) |-> Bind(cl.binders[k], sig[k].cns, sig[k].ty)]
          IN Check(P, ctx2, cl.body, IF expectedOrRet[1] = "fixed" THEN expectedOrRet[2] ELSE InstRet(t, cl.xtor, ty))

Check(P, ctx, n, exp) ==
  LET t == P.nodes[n] IN
  IF t.k = "var" THEN Visible(ctx, t.name) /\ ~Lookup(ctx, t.name).cns /\ Lookup(ctx, t.name).ty = exp /\ WF(P, exp)
  ELSE IF t.k = "lit" THEN exp = I64
  ELSE IF t.k = "paren" THEN Check(P, ctx, t.inner, exp)
  ELSE IF t.k = "op" THEN exp = I64 /\ Check(P, ctx, t.fst, I64) /\ Check(P, ctx, t.snd, I64)
  ELSE IF t.k = "ifc" THEN
       /\ Check(P, ctx, t.fst, I64) /\ (t.snd = 0 \/ Check(P, ctx, t.snd, I64))
       /\ Check(P, ctx, t.thenc, exp) /\ Check(P, ctx, t.elsec, exp)
  ELSE IF t.k = "print" THEN Check(P, ctx, t.arg, I64) /\ Check(P, ctx, t.next, exp)
  ELSE IF t.k = "exit" THEN Check(P, ctx, t.arg, I64)
  ELSE IF t.k = "let" THEN
       /\ WF(P, t.ty) /\ Check(P, ctx, t.bound, t.ty)
       /\ Check(P, Append(ctx, Bind(t.var, FALSE, t.ty)), t.body, exp)
  ELSE IF t.k = "label" THEN Check(P, Append(ctx, Bind(t.label, TRUE, exp)), t.body, exp)
  ELSE IF t.k = "goto" THEN
       /\ Visible(ctx, t.target) /\ Lookup(ctx, t.target).cns
       /\ Check(P, ctx, t.arg, Lookup(ctx, t.target).ty)
  ELSE IF t.k = "call" THEN
       /\ HasDef(P, t.name)
       /\ LET d == DefOf(P, t.name)
          IN /\ d.ret = exp /\ WF(P, exp)
             /\ Len(t.args) = Len(d.params)
             /\ CheckArgs(P, ctx, t.args, d.params, 1)
  ELSE IF t.k = "ctor" THEN
       /\ exp.n # "i64" /\ HasData(P, exp.n) /\ WF(P, exp)
       /\ LET d == DataOf(P, exp.n)
          IN /\ HasXtor(d, t.name)
             /\ Len(t.args) = Len(XtorOf(d, t.name).args)
             /\ CheckArgs(P, ctx, t.args, InstArgs(d, t.name, exp), 1)
  ELSE IF t.k = "case" THEN
       /\ t.clauses # <<>>
       /\ DataWithCtor(P, t.clauses[1].xtor) # {}
       /\ LET d == P.data[CHOOSE i \in DataWithCtor(P, t.clauses[1].xtor) : TRUE]
              ty == [n |-> d.name, a |-> t.targs]
          IN /\ WF(P, ty)
             /\ Check(P, ctx, t.scrut, ty)
             /\ ClausesOK(P, ctx, d, ty, t.clauses, <<"fixed", exp>>)
  ELSE IF t.k = "dtor" THEN
       /\ CodataWithDtor(P, t.name) # {}
       /\ LET c == P.codata[CHOOSE i \in CodataWithDtor(P, t.name) : TRUE]
              ty == [n |-> c.name, a |-> t.targs]
          IN /\ WF(P, ty)
             /\ Check(P, ctx, t.scrut, ty)
             /\ Len(t.args) = Len(XtorOf(c, t.name).args)
             /\ CheckArgs(P, ctx, t.args, InstArgs(c, t.name, ty), 1)
             /\ InstRet(c, t.name, ty) = exp
  ELSE IF t.k = "new" THEN
       /\ exp.n # "i64" /\ HasCodata(P, exp.n) /\ WF(P, exp)
       /\ ClausesOK(P, ctx, CodataOf(P, exp.n), exp, t.clauses, <<"ret">>)
  ELSE FALSE

\* ---------------------------------------------------------------- programs
DeclsOK(P) ==
  /\ NoDup(Names(Templates(P)))
  /\ NoDup(Names(P.defs))
  /\ NoDup([i \in 1..Len(P.ctornames) |-> P.ctornames[i]])
  /\ NoDup([i \in 1..Len(P.dtornames) |-> P.dtornames[i]])
  /\ \A i \in 1..Len(Templates(P)) :
       LET t == Templates(P)[i] IN
       /\ NoDup(t.params)
       /\ \A k \in 1..Len(t.params) : ~HasTemplate(P, t.params[k])
       /\ \A x \in 1..Len(t.xtors) :
            /\ \A k \in 1..Len(t.xtors[x].args) : TemplateTyOK(P, t.xtors[x].args[k].ty, t.params)
            /\ NoDup(Names(t.xtors[x].args))
            /\ ("ret" \in DOMAIN t.xtors[x] => TemplateTyOK(P, t.xtors[x].ret, t.params))

DefOK(P, d) ==
  /\ NoDup(Names(d.params))
  /\ \A k \in 1..Len(d.params) : WF(P, d.params[k].ty)
  /\ WF(P, d.ret)
  /\ Check(P, d.params, d.body, d.ret)

Accepts(P) == DeclsOK(P) /\ \A i \in 1..Len(P.defs) : DefOK(P, P.defs[i])
=============================================================================
