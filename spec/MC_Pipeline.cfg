SPECIFICATION MCSpec
CONSTANTS
  Paths <- MCPaths
  Kinds <- MCKinds
  MaxLen = 3
INVARIANT CachePrefixClosed
INVARIANT EmitHistories
PROPERTY CounterMonotone
CHECK_DEADLOCK FALSE
