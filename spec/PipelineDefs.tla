---------------------------- MODULE PipelineDefs ----------------------------
(* Stage order, outcome alphabets and documented capacity limits of the compiler pipeline (shared by the      *)
(* abstract driver model spec/Pipeline.tla and the trace validator spec/TracePipeline.tla).                  *)
EXTENDS Integers, Sequences, FiniteSets
FrontStages == <<"parse", "check", "compile", "focus", "shrink", "linearize">>
SideStages == {"uniquify"}                 \* computed from `compile`, not on the way to later stages
Backends == {"x86", "a64", "rv64"}
StageIdx(s) == CHOOSE i \in 1..Len(FrontStages) : FrontStages[i] = s

Alphabet(stage) ==
  IF stage = "parse" THEN {"ok", "parse_error"}
  ELSE IF stage = "check" THEN {"ok", "type_error"}
  ELSE IF stage \in Backends THEN {"ok", "capacity"}
  ELSE {"ok"}

\* documented capacity limits, as predicates over facts about the linearised program
CapacityAllowed(stage, f) ==
  IF stage = "x86" THEN f.nargs > 5 \/ f.maxctx > 100
  ELSE IF stage = "a64" THEN f.nargs > 7 \/ f.maxctx > 100
  ELSE IF stage = "rv64" THEN f.hasprint \/ f.maxctx >= 14
  ELSE FALSE

=============================================================================
