---------------------------- MODULE AxCutMachine ----------------------------
(***************************************************************************)
(* M2: the AxCut value machine (DESIGN Appendix A.3).  One action per      *)
(* statement form.  Two modes:                                             *)
(*   linear = FALSE  named environment, named argument passing (the input  *)
(*                   of linearization)                                     *)
(*   linear = TRUE   ordered environment, positional passing at call,      *)
(*                   invoke, clause entry and method entry; `substitute`   *)
(*                   is a simultaneous assignment (what the backends see). *)
(* Program record Q (ser_axcut.rs + indices added by lib/cases.py):        *)
(*   Q.nodes, Q.defs, Q.types, Q.defidx (name |-> index), Q.xpos           *)
(* Machine record m: node, env (sequence of [id, chi, ty, v]), out,        *)
(* status, why, result, steps.                                             *)
(***************************************************************************)
EXTENDS Values

MInt(w) == [t |-> "int", w |-> w]
MObj(tag, fs) == [t |-> "obj", tag |-> tag, fs |-> fs]
MClo(node, cap) == [t |-> "clo", node |-> node, cap |-> cap]

ANode(Q, n) == Q.nodes[n]
AHasDef(Q, l) == l \in DOMAIN Q.defidx
ADef(Q, l) == Q.defs[Q.defidx[l]]
AHasClause(cls, tag) == \E i \in 1..Len(cls) : cls[i].xtor = tag
AClauseOf(cls, tag) == cls[CHOOSE i \in 1..Len(cls) : cls[i].xtor = tag]
\* position of an xtor in its type declaration (0-based), -1 if unknown
AXtorPos(Q, ty, tag) == IF ty \in DOMAIN Q.xpos /\ tag \in DOMAIN Q.xpos[ty] THEN Q.xpos[ty][tag] ELSE -1

\* last binding wins (in linear programs ids in an environment are distinct)
ABound(env, id) == \E i \in 1..Len(env) : env[i].id = id
ALookup(env, id) == env[CHOOSE i \in 1..Len(env) : env[i].id = id /\ \A j \in (i + 1)..Len(env) : env[j].id # id]
ABind(b, v) == [id |-> b.id, chi |-> b.chi, ty |-> b.ty, v |-> v]
AZip(bs, vs) == [i \in 1..Len(bs) |-> ABind(bs[i], vs[i])]
AVals(env) == [i \in 1..Len(env) |-> env[i].v]
AIds(ctx) == [i \in 1..Len(ctx) |-> ctx[i].id]

AFail(m, why) == [m EXCEPT !.status = "fail", !.why = why]

AIntOp(op, a, b) == IF op = "add" THEN Add(a, b) ELSE IF op = "sub" THEN Sub(a, b) ELSE IF op = "mul" THEN Mul(a, b)
                    ELSE IF op = "div" THEN SDiv(a, b) ELSE SRem(a, b)
ACmp(sort, a, b) == IF sort = "eq" THEN a = b ELSE IF sort = "ne" THEN a # b ELSE IF sort = "lt" THEN SLt(a, b)
                    ELSE IF sort = "le" THEN SLe(a, b) ELSE IF sort = "gt" THEN SLt(b, a) ELSE SLe(b, a)

AInit(Q, args) ==
  LET d == Q.defs[1]
  IN [node |-> d.body, env |-> AZip(d.ctx, [i \in 1..Len(d.ctx) |-> MInt(args[i])]),
      out |-> <<>>, status |-> "run", why |-> "", result |-> Zero, steps |-> 0]

\* ---- statements common to both modes (they only read variables and append a binding)
ACommon(Q, m, n) ==
  LET env == m.env IN
  IF n.k = "lit" THEN [m EXCEPT !.env = Append(env, ABind(n.var, MInt(n.lit))), !.node = n.next]
  ELSE IF n.k = "op" THEN
     IF ~ABound(env, n.fst) \/ ~ABound(env, n.snd) THEN AFail(m, "op: operand not in scope")
     ELSE LET a == ALookup(env, n.fst).v b == ALookup(env, n.snd).v
          IN IF a.t # "int" \/ b.t # "int" THEN AFail(m, "op: operand is not an integer")
             ELSE IF n.op \in {"div", "rem"} /\ ~DivDefined(a.w, b.w) THEN [m EXCEPT !.status = "source-undefined"]
             ELSE [m EXCEPT !.env = Append(env, ABind(n.var, MInt(AIntOp(n.op, a.w, b.w)))), !.node = n.next]
  ELSE IF n.k = "print" THEN
     IF ~ABound(env, n.var) THEN AFail(m, "print: operand not in scope")
     ELSE LET a == ALookup(env, n.var).v
          IN IF a.t # "int" THEN AFail(m, "print: operand is not an integer")
             ELSE [m EXCEPT !.out = Append(m.out, <<IF n.nl THEN "println_i64" ELSE "print_i64", a.w>>), !.node = n.next]
  ELSE IF n.k = "ifc" THEN
     IF ~ABound(env, n.fst) \/ (n.snd # 0 /\ ~ABound(env, n.snd)) THEN AFail(m, "ifc: operand not in scope")
     ELSE LET a == ALookup(env, n.fst).v b == IF n.snd = 0 THEN MInt(Zero) ELSE ALookup(env, n.snd).v
          IN IF a.t # "int" \/ b.t # "int" THEN AFail(m, "ifc: operand is not an integer")
             ELSE [m EXCEPT !.node = IF ACmp(n.sort, a.w, b.w) THEN n.thenc ELSE n.elsec]
  ELSE IF n.k = "exit" THEN
     IF ~ABound(env, n.var) THEN AFail(m, "exit: operand not in scope")
     ELSE LET a == ALookup(env, n.var).v
          IN IF a.t # "int" THEN AFail(m, "exit: operand is not an integer")
             ELSE [m EXCEPT !.status = "done", !.result = a.w]
  ELSE AFail(m, "unknown statement " \o n.k)

\* ---- linear (positional) mode
AStepLinear(Q, m) ==
  LET n == ANode(Q, m.node) env == m.env L == Len(env) IN
  IF n.k = "substitute" THEN
     IF \E i \in 1..Len(n.re) : ~ABound(env, n.re[i].old) THEN AFail(m, "substitute: source not in scope")
     ELSE [m EXCEPT !.env = [i \in 1..Len(n.re) |-> ABind(n.re[i].new, ALookup(env, n.re[i].old).v)], !.node = n.next]
  ELSE IF n.k = "call" THEN
     IF ~AHasDef(Q, n.label) THEN AFail(m, "call: unknown label " \o n.label)
     ELSE LET d == ADef(Q, n.label)
          IN IF Len(d.ctx) # L THEN AFail(m, "call: environment is not the callee's parameter list")
             ELSE [m EXCEPT !.env = AZip(d.ctx, AVals(env)), !.node = d.body]
  ELSE IF n.k = "let" THEN
     LET k == Len(n.args)
     IN IF k > L THEN AFail(m, "let: fewer variables than constructor arguments")
        ELSE [m EXCEPT !.env = Append(SubSeq(env, 1, L - k), ABind(n.var, MObj(n.tag, AVals(SubSeq(env, L - k + 1, L))))),
                       !.node = n.next]
  ELSE IF n.k = "switch" THEN
     IF L = 0 \/ env[L].id # n.var THEN AFail(m, "switch: scrutinee is not the last variable")
     ELSE IF env[L].v.t # "obj" THEN AFail(m, "switch: scrutinee is not a data value")
     ELSE LET v == env[L].v
          IN IF ~AHasClause(n.clauses, v.tag) THEN AFail(m, "switch: no clause for " \o v.tag)
             ELSE LET cl == AClauseOf(n.clauses, v.tag)
                  IN IF Len(cl.ctx) # Len(v.fs) THEN AFail(m, "switch: clause arity")
                     ELSE [m EXCEPT !.env = SubSeq(env, 1, L - 1) \o AZip(cl.ctx, v.fs), !.node = cl.body]
  ELSE IF n.k = "create" THEN
     LET k == Len(n.env)
     IN IF ~n.hasenv THEN AFail(m, "create: closure environment not annotated in a linear program")
        ELSE IF k > L THEN AFail(m, "create: fewer variables than the closure environment")
        ELSE [m EXCEPT !.env = Append(SubSeq(env, 1, L - k), ABind(n.var, MClo(m.node, AVals(SubSeq(env, L - k + 1, L))))),
                       !.node = n.next]
  ELSE IF n.k = "invoke" THEN
     IF L = 0 \/ env[L].id # n.var THEN AFail(m, "invoke: closure is not the last variable")
     ELSE IF env[L].v.t # "clo" THEN AFail(m, "invoke: not a closure")
     ELSE LET clo == env[L].v cr == ANode(Q, clo.node)
          IN IF ~AHasClause(cr.clauses, n.tag) THEN AFail(m, "invoke: no method " \o n.tag)
             ELSE LET cl == AClauseOf(cr.clauses, n.tag)
                  IN IF Len(cl.ctx) # L - 1 THEN AFail(m, "invoke: arguments are not the method's parameter list")
                     ELSE [m EXCEPT !.env = AZip(cl.ctx, AVals(SubSeq(env, 1, L - 1))) \o AZip(cr.env, clo.cap), !.node = cl.body]
  ELSE ACommon(Q, m, n)

\* ---- non-linear (named) mode; closures capture the whole current environment (lexical scoping)
AStepNamed(Q, m) ==
  LET n == ANode(Q, m.node) env == m.env IN
  IF n.k = "substitute" THEN AFail(m, "substitute in a non-linear program")
  ELSE IF n.k = "call" THEN
     IF ~AHasDef(Q, n.label) THEN AFail(m, "call: unknown label " \o n.label)
     ELSE LET d == ADef(Q, n.label)
          IN IF Len(d.ctx) # Len(n.args) THEN AFail(m, "call: wrong number of arguments")
             ELSE IF \E i \in 1..Len(n.args) : ~ABound(env, n.args[i].id) THEN AFail(m, "call: argument not in scope")
             ELSE [m EXCEPT !.env = AZip(d.ctx, [i \in 1..Len(n.args) |-> ALookup(env, n.args[i].id).v]), !.node = d.body]
  ELSE IF n.k = "let" THEN
     IF \E i \in 1..Len(n.args) : ~ABound(env, n.args[i].id) THEN AFail(m, "let: argument not in scope")
     ELSE [m EXCEPT !.env = Append(env, ABind(n.var, MObj(n.tag, [i \in 1..Len(n.args) |-> ALookup(env, n.args[i].id).v]))),
                    !.node = n.next]
  ELSE IF n.k = "switch" THEN
     IF ~ABound(env, n.var) THEN AFail(m, "switch: scrutinee not in scope")
     ELSE LET v == ALookup(env, n.var).v
          IN IF v.t # "obj" THEN AFail(m, "switch: scrutinee is not a data value")
             ELSE IF ~AHasClause(n.clauses, v.tag) THEN AFail(m, "switch: no clause for " \o v.tag)
             ELSE LET cl == AClauseOf(n.clauses, v.tag)
                  IN IF Len(cl.ctx) # Len(v.fs) THEN AFail(m, "switch: clause arity")
                     ELSE [m EXCEPT !.env = env \o AZip(cl.ctx, v.fs), !.node = cl.body]
  ELSE IF n.k = "create" THEN
     [m EXCEPT !.env = Append(env, ABind(n.var, MClo(m.node, env))), !.node = n.next]
  ELSE IF n.k = "invoke" THEN
     IF ~ABound(env, n.var) THEN AFail(m, "invoke: closure not in scope")
     ELSE LET clo == ALookup(env, n.var).v
          IN IF clo.t # "clo" THEN AFail(m, "invoke: not a closure")
             ELSE LET cr == ANode(Q, clo.node)
                  IN IF ~AHasClause(cr.clauses, n.tag) THEN AFail(m, "invoke: no method " \o n.tag)
                     ELSE LET cl == AClauseOf(cr.clauses, n.tag)
                          IN IF Len(cl.ctx) # Len(n.args) THEN AFail(m, "invoke: wrong number of arguments")
                             ELSE IF \E i \in 1..Len(n.args) : ~ABound(env, n.args[i].id) THEN AFail(m, "invoke: argument not in scope")
                             ELSE [m EXCEPT !.env = clo.cap \o AZip(cl.ctx, [i \in 1..Len(n.args) |-> ALookup(env, n.args[i].id).v]),
                                            !.node = cl.body]
  ELSE ACommon(Q, m, n)

AStep(Q, m, linear) ==
  LET m2 == IF linear THEN AStepLinear(Q, m) ELSE AStepNamed(Q, m)
  IN [m2 EXCEPT !.steps = m.steps + 1]
=============================================================================
