------------------------------ MODULE TypeCheck ------------------------------
(***************************************************************************)
(* C15: three-way agreement on every program of the batch: the label the   *)
(* program was constructed with, the verdict of the declarative relation   *)
(* spec/FunTyping.tla, and the verdict of the real type checker.           *)
(*   label # spec verdict  -> tool error (generator or specification)      *)
(*   spec verdict # implementation verdict, or a panic -> violation        *)
(***************************************************************************)
EXTENDS FunTyping, Json, IOUtils
Cases == JsonDeserialize(IOEnv.SCCV_CASES)   \* seq of [name, prog, label, impl]
VARIABLE st
Judge(c) ==
  LET spec == IF Accepts(c.prog) THEN "accept" ELSE "reject" IN
  IF c.label # "unknown" /\ spec # c.label THEN <<"tool", "specification says " \o spec \o " but the program was constructed to " \o c.label>>
  ELSE IF c.impl = "panic" THEN <<"fail", "the type checker panicked">>
  ELSE IF spec = "accept" /\ c.impl = "reject" THEN <<"fail", "reject-well-typed: the type checker rejects a well-typed program">>
  ELSE IF spec = "reject" /\ c.impl = "accept" THEN <<"fail", "accept-ill-typed: the type checker accepts an ill-typed program">>
  ELSE <<"agree", spec>>
Init == st \in {[i |-> i, status |-> "run"] : i \in 1..Len(Cases)}
Next == /\ st.status = "run"
        /\ PrintT("RESULT " \o ToJson([case |-> Cases[st.i].name, status |-> Judge(Cases[st.i])[1], why |-> Judge(Cases[st.i])[2]]))
        /\ st' = [st EXCEPT !.status = "reported"]
Spec == Init /\ [][Next]_st
=============================================================================
