SPECIFICATION Spec
INVARIANT Emit
VIEW View
CHECK_DEADLOCK FALSE
