------------------------------- MODULE Values -------------------------------
(***************************************************************************)
(* Tagged machine words shared by the block-heap machine (M3) and the ISA  *)
(* machines (M4).  Tagging turns "uses an undefined value" and "touches    *)
(* memory outside heap / spill area / own pushes" into plain predicates.   *)
(*   int  w      64-bit integer (4 limbs, Word64)                          *)
(*   ptr  b o    byte offset o inside heap block b (blocks are 64 bytes)    *)
(*   stk  o      address = entry stack pointer + o   (o <= 0 inside frame)  *)
(*   code l o    address of label l plus o bytes                            *)
(*   init r      the (unknown) entry value of callee-saved register r       *)
(*   ret         the return address handed over by the caller               *)
(*   undef       destroyed by a call / never written                        *)
(*   bad why     result of an operation with no defined meaning             *)
(***************************************************************************)
EXTENDS Integers, Sequences, FiniteSets, TLC, Word64

IntV(w)     == [t |-> "int", w |-> w]
PtrV(b, o)  == [t |-> "ptr", b |-> b, o |-> o]
StkV(o)     == [t |-> "stk", o |-> o]
CodeV(l, o) == [t |-> "code", l |-> l, o |-> o]
InitV(r)    == [t |-> "init", r |-> r]
RetV        == [t |-> "ret"]
UndefV      == [t |-> "undef"]
BadV(why)   == [t |-> "bad", why |-> why]
ZeroV       == IntV(Zero)

BlockBytes == 64
SlotsPerBlock == 8

Sparse(m, k, d) == IF k \in DOMAIN m THEN m[k] ELSE d
HeapKey(b, slot) == b * SlotsPerBlock + slot

\* a word that is a small non-negative number (< 2^16): used for pointer / label arithmetic
SmallNat(w) == w[2] = 0 /\ w[3] = 0 /\ w[4] = 0
\* a word that is a small negative number (> -2^16)
SmallNeg(w) == w[2] = 65535 /\ w[3] = 65535 /\ w[4] = 65535 /\ w[1] > 0
SmallVal(w) == IF SmallNat(w) THEN w[1] ELSE w[1] - 65536

IsBad(v) == v.t = "bad"
\* values that carry no information a program may depend on
IsJunk(v) == v.t \in {"undef", "init", "ret"}
Defined(v) == v.t \in {"int", "ptr", "code", "stk"}

PtrAdd(a, k) ==  \* pointer plus small integer k (may be negative); stays a pointer into some block
  LET o == a.o + k
  IN IF o >= 0 THEN PtrV(a.b + (o \div BlockBytes), o % BlockBytes)
     ELSE PtrV(a.b - (((-o) + BlockBytes - 1) \div BlockBytes), (BlockBytes - ((-o) % BlockBytes)) % BlockBytes)

AddV(a, b) ==
  IF IsBad(a) THEN a ELSE IF IsBad(b) THEN b
  ELSE IF IsJunk(a) \/ IsJunk(b) THEN BadV("arithmetic on undefined value")
  ELSE IF a.t = "int" /\ b.t = "int" THEN IntV(Add(a.w, b.w))
  ELSE IF a.t = "ptr" /\ b.t = "int" /\ (SmallNat(b.w) \/ SmallNeg(b.w)) THEN PtrAdd(a, SmallVal(b.w))
  ELSE IF a.t = "int" /\ b.t = "ptr" /\ (SmallNat(a.w) \/ SmallNeg(a.w)) THEN PtrAdd(b, SmallVal(a.w))
  ELSE IF a.t = "code" /\ b.t = "int" /\ SmallNat(b.w) THEN CodeV(a.l, a.o + b.w[1])
  ELSE IF a.t = "int" /\ b.t = "code" /\ SmallNat(a.w) THEN CodeV(b.l, b.o + a.w[1])
  ELSE IF a.t = "stk" /\ b.t = "int" /\ (SmallNat(b.w) \/ SmallNeg(b.w)) THEN StkV(a.o + SmallVal(b.w))
  ELSE BadV("add of " \o a.t \o " and " \o b.t)
SubV(a, b) ==
  IF IsBad(a) THEN a ELSE IF IsBad(b) THEN b
  ELSE IF IsJunk(a) \/ IsJunk(b) THEN BadV("arithmetic on undefined value")
  ELSE IF a.t = "int" /\ b.t = "int" THEN IntV(Sub(a.w, b.w))
  ELSE IF a.t = "stk" /\ b.t = "int" /\ (SmallNat(b.w) \/ SmallNeg(b.w)) THEN StkV(a.o - SmallVal(b.w))
  ELSE IF a.t = "ptr" /\ b.t = "int" /\ (SmallNat(b.w) \/ SmallNeg(b.w)) THEN PtrAdd(a, -SmallVal(b.w))
  ELSE BadV("sub of " \o a.t \o " and " \o b.t)
MulV(a, b) ==
  IF IsBad(a) THEN a ELSE IF IsBad(b) THEN b
  ELSE IF a.t = "int" /\ b.t = "int" THEN IntV(Mul(a.w, b.w))
  ELSE BadV("multiplication of " \o a.t \o " and " \o b.t)

\* three-valued comparison results: "T", "F", "bad"
CmpEq(a, b) == IF ~Defined(a) \/ ~Defined(b) THEN "bad"
               ELSE IF a.t # b.t /\ ~(a.t = "int" /\ b.t = "ptr" /\ a = ZeroV) /\ ~(a.t = "ptr" /\ b.t = "int" /\ b = ZeroV) THEN "bad"
               ELSE IF a = b THEN "T" ELSE "F"
CmpLt(a, b) == IF a.t = "int" /\ b.t = "int" THEN (IF SLt(a.w, b.w) THEN "T" ELSE "F") ELSE "bad"
\* condition codes over the remembered operand pair <<a, b>> of the last compare
Cond(cc, f) ==
  LET a == f[1] b == f[2] eq == CmpEq(a, b) lt == CmpLt(a, b)
  IN IF cc = "eq" THEN eq
     ELSE IF cc = "ne" THEN (IF eq = "bad" THEN "bad" ELSE IF eq = "T" THEN "F" ELSE "T")
     ELSE IF lt = "bad" \/ eq = "bad" THEN "bad"
     ELSE IF cc = "lt" THEN lt
     ELSE IF cc = "le" THEN (IF lt = "T" \/ eq = "T" THEN "T" ELSE "F")
     ELSE IF cc = "gt" THEN (IF lt = "T" \/ eq = "T" THEN "F" ELSE "T")
     ELSE IF cc = "ge" THEN (IF lt = "T" THEN "F" ELSE "T")
     ELSE "bad"
NoFlagsV == <<UndefV, UndefV>>
=============================================================================
