------------------------------- MODULE Refine -------------------------------
(***************************************************************************)
(* Lock-step product of M2 (AxCut value machine, linear mode) with an ISA  *)
(* machine (M4) executing the tokenised printed assembly of the real       *)
(* backend.  `@mark` pseudo-instructions (the cfg(scc_verif) hook) are the *)
(* synchronisation points.  At each marker:                                *)
(*   ControlAgrees   same statement kind, same context (ids, chiralities)  *)
(*   HeapInv (C09)   on the concrete heap words with the concrete roots     *)
(*   Footprint (C10) frontier <= peak reachable + K                        *)
(*   EnvCorresponds  every live variable corresponds shallowly to M2's     *)
(* then M2 executes that statement.  At the end: result and output equal.  *)
(* Every (program, argument tuple) of the batch is one behaviour; verdicts *)
(* are latched in the state and printed once as a RESULT line.             *)
(***************************************************************************)
EXTENDS X86, A64, RV64, AxCutMachine, HeapInv, Json, IOUtils

Progs == JsonDeserialize(IOEnv.SCCV_PROGS)    \* seq of [name, code, labels, prog]
Cases == JsonDeserialize(IOEnv.SCCV_CASES)    \* seq of [p, name, args]
Cfg   == JsonDeserialize(IOEnv.SCCV_CFG)      \* backend config dumped from the implementation
NC == Len(Cases)
Backend == Cfg.backend
JumpLen == Cfg.jump_length
MaxSteps == Cfg.maxsteps
FootprintK == Cfg.footprint_k

PP(c) == Progs[Cases[c].p]
QQ(c) == PP(c).prog

VARIABLE st

IsaInit(P, args, nblocks) ==
  IF Backend = "x86" THEN X86Init(P, args, nblocks)
  ELSE IF Backend = "a64" THEN A64Init(P, args, nblocks)
  ELSE RVInit(P, args, nblocks, Cfg)
IsaStep(P, s) ==
  IF Backend = "x86" THEN X86Step(P, s)
  ELSE IF Backend = "a64" THEN A64Step(P, s)
  ELSE RVStep(P, s)

\* ---- optional: register snapshots recorded from the real processor at every statement marker (selftest/hw_x86.py runs the
\* assembled program with a call to a register-dumping routine at each @mark).  Validates the ISA machine itself: an integer
\* the model holds in a register must be the value the processor holds, a heap pointer must be the same offset from the heap
\* base; registers the model regards as destroyed, stack or code addresses are not compared.
HwRegs == {"rax", "rcx", "rdx", "rbx", "rbp", "rsi", "rdi", "r8", "r9", "r10", "r11", "r12", "r13", "r14", "r15"}
HwOf(c) == IF "hw" \in DOMAIN Cases[c] THEN Cases[c].hw ELSE <<>>
HwRegOK(v, w, base) == IF v.t = "int" THEN v.w = w
                       ELSE IF v.t = "ptr" THEN Sub(w, base) = FromNat(BlockBytes * v.b + v.o)
                       ELSE TRUE
HwAgrees(c, s) ==
  LET hw == HwOf(c) k == s.marks + 1 IN
  IF hw = <<>> THEN ""
  ELSE IF k > Len(hw) THEN "the processor passed fewer statement markers than the model"
  ELSE LET bad == {r \in HwRegs : ~HwRegOK(s.regs[r], hw[k][r], hw[1][Cfg.heap.r])}
       IN IF bad = {} THEN "" ELSE "the processor's register " \o (CHOOSE r \in bad : TRUE) \o " differs from the model's"

\* value held by a temporary (register or spill slot relative to the stack pointer)
TempVal(s, t) ==
  IF t.k = "reg" THEN s.regs[t.r]
  ELSE LET sp == s.regs[Cfg.sp] IN IF sp.t = "stk" THEN Sparse(s.stk, sp.o + t.off, UndefV) ELSE UndefV

\* <<tag, reason>>; tag "" if position p corresponds shallowly
Shallow(c, s, p) ==
  LET m == s.m e == m.env[p] snd == TempVal(s, Cfg.temps[p].snd)
  IN IF e.chi = "ext" THEN
        (IF e.v.t # "int" THEN <<"axcut", "integer variable holds an object in the AxCut machine">>
         ELSE IF snd = IntV(e.v.w) THEN <<"", "">>
         ELSE IF IsJunk(snd) THEN <<"undef", "integer variable holds a destroyed or never-written value in the generated code">>
         ELSE <<"env", "integer variable differs">>)
     ELSE IF e.v.t = "obj" THEN
        \* the machine word that stands for a constructor is not prescribed (today: position * jump length): it is learnt at first
        \* sight, must be the same word ever after and must differ from the words of the other constructors of the type
        (IF snd.t = "int" /\ AXtorPos(QQ(c), e.ty, e.v.tag) >= 0 /\
            (IF e.ty \in DOMAIN s.tags /\ e.v.tag \in DOMAIN s.tags[e.ty] THEN s.tags[e.ty][e.v.tag] = snd.w
             ELSE e.ty \notin DOMAIN s.tags \/ \A x \in DOMAIN s.tags[e.ty] : s.tags[e.ty][x] # snd.w) THEN <<"", "">>
         ELSE IF IsJunk(snd) THEN <<"undef", "constructor tag holds a destroyed or never-written value in the generated code">>
         ELSE <<"env", "constructor tag differs">>)
     ELSE IF e.v.t = "clo" THEN
        (IF snd.t = "code" /\ snd.o = 0 /\ (e.v.node \notin DOMAIN s.tab \/ s.tab[e.v.node] = snd.l) THEN <<"", "">>
         ELSE IF IsJunk(snd) THEN <<"undef", "method table pointer holds a destroyed or never-written value in the generated code">>
         ELSE <<"env", "method table differs">>)
     ELSE <<"axcut", "object variable holds an integer in the AxCut machine">>

\* learn the method-table label of closures seen for the first time
Learn(s) ==
  LET m == s.m
      clos == {p \in 1..Len(m.env) : m.env[p].v.t = "clo" /\ m.env[p].v.node \notin DOMAIN s.tab
                                      /\ TempVal(s, Cfg.temps[p].snd).t = "code"}
  IN [nd \in {m.env[p].v.node : p \in clos} |->
        TempVal(s, Cfg.temps[CHOOSE p \in clos : m.env[p].v.node = nd].snd).l] @@ s.tab

\* learn the words of constructors seen for the first time (one new constructor per type and marker is enough: the rest follows at the next marker)
LearnTags(s) ==
  LET m == s.m
      news == {p \in 1..Len(m.env) : m.env[p].chi # "ext" /\ m.env[p].v.t = "obj" /\ TempVal(s, Cfg.temps[p].snd).t = "int"
                                      /\ ~(m.env[p].ty \in DOMAIN s.tags /\ m.env[p].v.tag \in DOMAIN s.tags[m.env[p].ty])}
      tys == {m.env[p].ty : p \in news}
      pick(ty) == CHOOSE p \in news : m.env[p].ty = ty
  IN [ty \in tys |-> (m.env[pick(ty)].v.tag :> TempVal(s, Cfg.temps[pick(ty)].snd).w) @@ (IF ty \in DOMAIN s.tags THEN s.tags[ty] ELSE <<>>)] @@ s.tags

Roots(s) ==
  LET m == s.m ps == {p \in 1..Len(m.env) : m.env[p].chi # "ext"}
  IN [p \in ps |-> TempVal(s, Cfg.temps[p].fst)]

Sync(c, s) ==
  LET m == s.m i == PP(c).code[s.pc] IN
  IF m.status # "run" THEN Fail(s, "control", "statement marker reached after the AxCut machine stopped (" \o m.status \o ")")
  ELSE LET n == ANode(QQ(c), m.node) IN
  IF i.kind # n.k THEN Fail(s, "control", "control differs: code is at " \o i.kind \o ", AxCut machine at " \o n.k)
  ELSE IF Len(i.ctx) # Len(m.env) \/ \E p \in 1..Len(m.env) : i.ctx[p].id # m.env[p].id \/ i.ctx[p].chi # m.env[p].chi
       THEN Fail(s, "control", "environment differs at " \o n.k)
  ELSE IF Len(m.env) > Len(Cfg.temps) THEN [s EXCEPT !.status = "capacity"]
  ELSE IF HwAgrees(c, s) # "" THEN Fail(s, "hw", HwAgrees(c, s) \o " (marker " \o ToString(s.marks + 1) \o ", at " \o n.k \o ")")
  ELSE LET hv0 == HeapView(s.heap, s.regs[Cfg.heap.r], s.regs[Cfg.free.r], Roots(s), s.hi)
           \* C10 runs (Cfg.skip_counts) do not stop at an inexact reference count - that is C09's verdict - so that the
           \* consequences for the footprint (a block that is lost, a frontier that keeps moving) are still observed
           hv == IF Cfg.skip_counts /\ hv0.why = "reference count is not exact" THEN [hv0 EXCEPT !.why = ""] ELSE hv0
           peak == IF hv.reach > s.peak THEN hv.reach ELSE s.peak
       IN
       IF \E p \in DOMAIN Roots(s) : IsJunk(Roots(s)[p]) THEN
            Fail(s, IF s.aftercall THEN "callenv" ELSE "undef", "a live object variable holds a destroyed or never-written pointer"
                    \o (IF s.aftercall THEN " right after a call of the print runtime" ELSE "") \o " (at " \o n.k \o ")")
       ELSE IF hv.why # "" THEN Fail(s, IF hv.leak THEN "leak" ELSE "heap", hv.why \o " (at " \o n.k \o ")")
       ELSE IF hv.F > peak + FootprintK THEN Fail(s, "footprint", "allocation frontier exceeds peak reachable blocks + K (at " \o n.k \o ")")
       \* C10, first sentence: "fresh memory only when both free lists are empty".  No statement both takes fresh memory and
       \* releases blocks, so a block that was on a free list at the previous marker and is still on one now was available all
       \* the time; if the frontier moved nevertheless, fresh memory was taken although a free list was not empty.  One such
       \* block is tolerated (an allocator may keep one block ready), and nothing is assumed about how many blocks one bump adds.
       ELSE IF s.marks > 0 /\ hv.F > s.F /\ Cardinality(s.freeSet \cap (hv.linearSet \cup hv.deferredSet)) > 1 THEN
            Fail(s, "footprint", "fresh memory was taken from the unused part of the heap although a free list was not empty (before " \o n.k \o ")")
       ELSE LET bad == {p \in 1..Len(m.env) : Shallow(c, s, p)[1] # ""}
                badU == {p \in bad : Shallow(c, s, p)[1] = "undef"}
            IN IF bad # {} THEN
                    LET w == Shallow(c, s, IF badU # {} THEN CHOOSE p \in badU : TRUE ELSE CHOOSE p \in bad : TRUE)
                    IN \* a variable that was right before a call of the print runtime and is wrong at the first statement
                       \* boundary after it was broken by the call sequence (save / restore around the call): tag callenv
                       Fail(s, IF s.aftercall /\ w[1] \in {"env", "undef"} THEN "callenv" ELSE w[1],
                            w[2] \o (IF s.aftercall THEN " right after a call of the print runtime" ELSE "") \o " (at " \o n.k \o ")")
               ELSE LET tab2 == Learn(s)
                        m2 == AStep(QQ(c), m, TRUE)
                        s2 == [s EXCEPT !.m = m2, !.tab = tab2, !.tags = LearnTags(s), !.peak = peak, !.F = hv.F, !.aftercall = FALSE, !.freeSet = hv.linearSet \cup hv.deferredSet,
                                        !.fin = [hp |-> s.regs[Cfg.heap.r].b, fp |-> s.regs[Cfg.free.r].b, nlin |-> hv.nlinear,
                                                 ndef |-> hv.ndeferred, reach |-> hv.reach, F |-> hv.F],
                                        !.cov = [maxenv |-> IF Len(m.env) > s.cov.maxenv THEN Len(m.env) ELSE s.cov.maxenv,
                                                 maxdef |-> IF hv.ndeferred > s.cov.maxdef THEN hv.ndeferred ELSE s.cov.maxdef,
                                                 maxlin |-> IF hv.nlinear > s.cov.maxlin THEN hv.nlinear ELSE s.cov.maxlin,
                                                 maxshared |-> IF hv.shared > s.cov.maxshared THEN hv.shared ELSE s.cov.maxshared]]
                    IN IF m2.status = "fail" THEN Fail(s2, "axcut", "AxCut machine: " \o m2.why)
                       ELSE IF m2.status = "source-undefined" THEN [s2 EXCEPT !.status = "source-undefined"]
                       ELSE [s2 EXCEPT !.pc = s.pc + 1, !.steps = s.steps + 1, !.marks = s.marks + 1]

PInit(c) ==
  [IsaInit(PP(c), Cases[c].args, Cfg.nblocks) EXCEPT !.strict = Cfg.strict_encode]
    @@ [c |-> c, m |-> AInit(QQ(c), Cases[c].args), marks |-> 0, tab |-> <<>>, tags |-> <<>>, peak |-> 0, F |-> 0, aftercall |-> FALSE, freeSet |-> {}, fin |-> [hp |-> 0, fp |-> 0, nlin |-> 0, ndef |-> 0, reach |-> 0, F |-> 0],
        cov |-> [maxenv |-> 0, maxdef |-> 0, maxlin |-> 0, maxshared |-> 0]]

PStep(s) ==
  LET c == s.c IN
  IF PP(c).code[s.pc].op = "mark" THEN Sync(c, s)
  ELSE LET s2 == IsaStep(PP(c), s)
       IN IF s2.status = "done" THEN
             (IF s2.m.status # "done" THEN Fail(s2, "control", "code returned but the AxCut machine did not exit")
              ELSE IF s2.result # IntV(s2.m.result) THEN Fail(s2, "result", "result differs")
              ELSE IF s2.out # s2.m.out THEN Fail(s2, "out", "output differs")
              ELSE s2)
          ELSE IF s2.status = "run" /\ Len(s2.out) > Len(s.out) THEN
             (IF Len(s2.out) > Len(s2.m.out) THEN Fail(s2, "out", "code printed something the AxCut machine has not printed")
              ELSE IF s2.out[Len(s2.out)] # s2.m.out[Len(s2.out)] THEN Fail(s2, "out", "printed value or print primitive differs")
              ELSE [s2 EXCEPT !.aftercall = TRUE])
          ELSE s2

Init == st \in {PInit(c) : c \in 1..NC}
Run == /\ st.status = "run"
       /\ st' = IF st.steps > MaxSteps THEN [st EXCEPT !.status = "step-bound"] ELSE PStep(st)
Report == /\ st.status \notin {"run", "reported"}
          /\ PrintT("RESULT " \o ToJson([case |-> Cases[st.c].name, status |-> st.status, tag |-> st.tag, why |-> st.why,
                                          nout |-> Len(st.out), steps |-> st.steps, marks |-> st.marks, hi |-> st.hi,
                                          peak |-> st.peak, F |-> st.F, pc |-> st.pc, msteps |-> st.m.steps, cov |-> st.cov, fin |-> st.fin,
                                          res |-> IF st.result.t = "int" THEN st.result.w ELSE <<>>]))
          /\ st' = [st EXCEPT !.status = "reported"]
Next == Run \/ Report
Spec == Init /\ [][Next]_st
=============================================================================
