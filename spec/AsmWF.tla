------------------------------- MODULE AsmWF -------------------------------
(***************************************************************************)
(* C14: static well-formedness of an emitted assembly file for its         *)
(* assembler, over the tokenised printed text of the real backend:         *)
(*   LabelsUnique   every label is defined exactly once                    *)
(*   TargetsDefined every referenced label is defined in the file or is    *)
(*                  one of the runtime's external symbols                  *)
(*   NoSymbolClash  the file does not define a runtime symbol, and defines *)
(*                  the entry symbol exactly once                          *)
(*   AllEncodable   every immediate, shift and memory offset fits the      *)
(*                  instruction form it is printed in (the operand ranges  *)
(*                  are those of X86Unencodable / A64Unencodable)          *)
(*   TableStride    every jump table (address-taken label followed by its  *)
(*                  entries) consists of consecutive fixed-size jumps, one *)
(*                  per clause label, and the backend's jump_length equals *)
(*                  the size of one such jump                              *)
(* One behaviour per file; the verdict is computed in one step.            *)
(***************************************************************************)
EXTENDS X86, A64, RV64, Json, IOUtils

Files == JsonDeserialize(IOEnv.SCCV_PROGS)   \* seq of [name, backend, code, labels, dups, clauses, jump_length]
NF == Len(Files)
VARIABLE st

Externs == {"print_i64", "println_i64"}
Runtime(b) == IF b = "rv64" THEN {} ELSE {"asm_main", "cleanup"}

\* labels referenced by an instruction
Refs(i) ==
  IF i.op \in {"label", "mark"} THEN {}
  ELSE {i.a[k].l : k \in {j \in 1..Len(i.a) : i.a[j].k \in {"lab", "rel"}}}

FixedJump(b, i) == (b = "x86" /\ i.op = "jmpn") \/ (b = "a64" /\ i.op = "B") \/ (b = "rv64" /\ i.op = "JAL")
JumpSize(b) == IF b = "x86" THEN X86JumpBytes ELSE IF b = "a64" THEN 4 ELSE RVJumpBytes
JumpTarget(b, i) == IF b = "rv64" THEN i.a[2].l ELSE i.a[1].l
AddressTaken(b, i) == (b = "x86" /\ i.op = "lea" /\ i.a[2].k = "rel") \/ (b = "a64" /\ i.op = "ADR") \/ (b = "rv64" /\ i.op = "LA")
TakenLabel(b, i) == IF b = "x86" THEN i.a[2].l ELSE i.a[2].l

Unencodable(b, i) ==
  IF i.op \in {"label", "mark"} THEN ""
  ELSE IF b = "x86" THEN X86Unencodable(i)
  ELSE IF b = "a64" THEN A64Unencodable(i)
  ELSE ""

\* A jump table is recognised by its shape, not by its name: an address-taken label directly followed by two or more
\* unconditional jumps (no other code has two unconditional jumps in a row: the second would be dead).  All of them must be
\* fixed-size jumps to distinct, defined labels.  F.clauses: table label |-> number of clause labels "<table>_<xtor>" in the
\* file, computed by the loader from the label names and 0 where the names are ambiguous (a label with that prefix is the
\* prefix of a further label, as happens when a user type is called like a generated label); where it is known, the table
\* has exactly that many entries.
AnyJump(b, i) == (b = "x86" /\ i.op \in {"jmp", "jmpn"} /\ i.a[1].k = "lab") \/ (b = "a64" /\ i.op = "B")
                 \/ (b = "rv64" /\ i.op = "JAL" /\ i.a[1].k = "reg" /\ i.a[1].r = "X0")
RECURSIVE RunLen(_, _, _)
RunLen(b, code, p) == IF p <= Len(code) /\ AnyJump(b, code[p]) THEN 1 + RunLen(b, code, p + 1) ELSE 0
TableWhy(F) ==
  LET b == F.backend code == F.code
      taken == {TakenLabel(b, code[i]) : i \in {j \in 1..Len(code) : AddressTaken(b, code[j])}} \cap DOMAIN F.labels
      shape == {t \in taken : LET p == F.labels[t] n == RunLen(b, code, p + 1)
                              IN n >= 2 /\ ~( /\ \A j \in (p + 1)..(p + n) : FixedJump(b, code[j])
                                              /\ Cardinality({JumpTarget(b, code[j]) : j \in (p + 1)..(p + n)}) = n
                                              /\ \A j \in (p + 1)..(p + n) : JumpTarget(b, code[j]) \in DOMAIN F.labels )}
      count == {t \in taken : t \in DOMAIN F.clauses /\ F.clauses[t] >= 2 /\ RunLen(b, code, F.labels[t] + 1) # F.clauses[t]}
  IN IF F.jump_length # JumpSize(b) THEN "the backend's jump_length is not the size of one table entry"
     ELSE IF shape # {} THEN "jump table " \o (CHOOSE t \in shape : TRUE) \o " is not a run of fixed-size jumps, one per clause"
     ELSE IF count # {} THEN "jump table " \o (CHOOSE t \in count : TRUE) \o " is not a run of fixed-size jumps, one per clause"
     ELSE ""

Why(F) ==
  LET b == F.backend code == F.code
      undefined == UNION {Refs(code[i]) : i \in 1..Len(code)} \ (DOMAIN F.labels \cup Externs)
      unenc == {i \in 1..Len(code) : Unencodable(b, code[i]) # ""}
  IN IF F.dups # <<>> THEN <<"labels", "label " \o F.dups[1] \o " is defined more than once">>
     ELSE IF undefined # {} THEN <<"targets", "referenced label " \o (CHOOSE l \in undefined : TRUE) \o " is not defined">>
     ELSE IF DOMAIN F.labels \cap Externs # {} THEN <<"clash", "the file defines a symbol of the print runtime">>
     ELSE IF ~(Runtime(b) \subseteq DOMAIN F.labels) THEN <<"clash", "entry or cleanup symbol missing">>
     ELSE IF unenc # {} THEN <<"encode", Unencodable(b, code[CHOOSE i \in unenc : TRUE])>>
     ELSE IF TableWhy(F) # "" THEN <<"table", TableWhy(F)>>
     ELSE <<"", "">>

Init == st \in {[f |-> f, status |-> "run"] : f \in 1..NF}
Next == /\ st.status = "run"
        /\ PrintT("RESULT " \o ToJson([case |-> Files[st.f].name, backend |-> Files[st.f].backend,
                                        status |-> IF Why(Files[st.f])[1] = "" THEN "wellformed" ELSE "fail",
                                        tag |-> Why(Files[st.f])[1], why |-> Why(Files[st.f])[2], n |-> Len(Files[st.f].code)]))
        /\ st' = [st EXCEPT !.status = "reported"]
Spec == Init /\ [][Next]_st
=============================================================================
