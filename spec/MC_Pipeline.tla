---------------------------- MODULE MC_Pipeline ----------------------------
EXTENDS Pipeline, Json
MCPaths == {"p1", "p2"}
MCKinds == {"compiled", "uniquified", "focused", "shrunk", "linearized", "x86", "a64", "rv64"}
\* every complete history is printed once (one line of JSON), for replay into the real Driver
EmitHistories == Len(hist) = MaxLen => PrintT("HISTORY " \o ToJson(hist))
=============================================================================
