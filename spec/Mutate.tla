------------------------------- MODULE Mutate -------------------------------
(***************************************************************************)
(* C18 input space, token level: starting from the token sequences of      *)
(* small valid programs, every sequence of at most MaxDepth mutations      *)
(*   Delete(i), Duplicate(i), Swap(i), Replace(i, t)  (t in the alphabet   *)
(*   of token classes, extreme literals included)                          *)
(* is a behaviour; each reachable mutant is printed once and replayed into *)
(* the real parser / type checker / pipeline by the harness.  Mutations of *)
(* depth 2 are restricted to a window around the first one (Window), so    *)
(* the space stays enumerable.                                             *)
(***************************************************************************)
EXTENDS Integers, Sequences, TLC, Json, IOUtils
Bases == JsonDeserialize(IOEnv.SCCV_CASES)      \* seq of [name, toks]
Alphabet == JsonDeserialize(IOEnv.SCCV_CFG).alphabet
MaxDepth == JsonDeserialize(IOEnv.SCCV_CFG).maxdepth
Window == JsonDeserialize(IOEnv.SCCV_CFG).window
VARIABLE st

Del(s, i) == SubSeq(s, 1, i - 1) \o SubSeq(s, i + 1, Len(s))
Dup(s, i) == SubSeq(s, 1, i) \o SubSeq(s, i, Len(s))
Swp(s, i) == SubSeq(s, 1, i - 1) \o <<s[i + 1], s[i]>> \o SubSeq(s, i + 2, Len(s))
Rep(s, i, t) == [s EXCEPT ![i] = t]

Near(s, i) == st.depth = 0 \/ (i >= st.at - Window /\ i <= st.at + Window)
Init == st \in {[b |-> b, toks |-> Bases[b].toks, depth |-> 0, at |-> 0, how |-> "base"] : b \in 1..Len(Bases)}
Next ==
  /\ st.depth < MaxDepth
  /\ \E i \in 1..Len(st.toks) :
       /\ Near(st.toks, i)
       /\ \/ st' = [st EXCEPT !.toks = Del(st.toks, i), !.depth = @ + 1, !.at = i, !.how = "delete"]
          \/ st' = [st EXCEPT !.toks = Dup(st.toks, i), !.depth = @ + 1, !.at = i, !.how = "duplicate"]
          \/ i < Len(st.toks) /\ st' = [st EXCEPT !.toks = Swp(st.toks, i), !.depth = @ + 1, !.at = i, !.how = "swap"]
          \/ \E t \in {Alphabet[k] : k \in 1..Len(Alphabet)} :
               t # st.toks[i] /\ st' = [st EXCEPT !.toks = Rep(st.toks, i, t), !.depth = @ + 1, !.at = i, !.how = "replace"]
Spec == Init /\ [][Next]_st
\* distinct mutants (the view drops how/at) are printed once each
View == <<st.b, st.toks, st.depth>>
Emit == st.depth > 0 => PrintT("MUTANT " \o ToJson([b |-> st.b, depth |-> st.depth, toks |-> st.toks]))
=============================================================================
