------------------------------ MODULE HeapInv ------------------------------
(***************************************************************************)
(* C09 / C10 predicates over *any* heap state (DESIGN Appendix A.4).       *)
(* heap     sparse function  block*8+slot |-> tagged value (absent = zero) *)
(* heapPtr  value of the register holding the immediately reusable list    *)
(* freePtr  value of the register holding the deferred list / frontier     *)
(* roots    function (any domain) of the first temporaries of the live     *)
(*          non-integer variables (pointer or null)                        *)
(* hi       highest block index ever written                               *)
(* Block layout (asked from the backend config, identical on all three):   *)
(* slot 0 header (reference count - 1, or free-list link), slot 1 unused,  *)
(* slots 2+2i / 3+2i the two words of field i, i \in 0..2.                 *)
(***************************************************************************)
EXTENDS Values

FieldsPerBlock == 3
Hdr(heap, b) == Sparse(heap, HeapKey(b, 0), ZeroV)
FieldFst(heap, b, i) == Sparse(heap, HeapKey(b, 2 + 2 * i), ZeroV)
FieldSnd(heap, b, i) == Sparse(heap, HeapKey(b, 3 + 2 * i), ZeroV)
FieldIdx == 0..(FieldsPerBlock - 1)
Children(heap, b) == {FieldFst(heap, b, i).b : i \in {j \in FieldIdx : FieldFst(heap, b, j).t = "ptr"}}

RECURSIVE Chain(_, _, _)
\* blocks on the list starting at pointer value v, following header links until a zero header:
\* <<set of blocks, last block, well-formed?>>
Chain(heap, v, acc) ==
  IF v.t # "ptr" \/ v.o # 0 THEN <<acc, -1, FALSE>>
  ELSE IF v.b \in acc THEN <<acc, v.b, FALSE>>
  ELSE LET h == Hdr(heap, v.b)
       IN IF h = ZeroV THEN <<acc \cup {v.b}, v.b, TRUE>> ELSE Chain(heap, h, acc \cup {v.b})

RECURSIVE Closure(_, _)
Closure(heap, S) == LET S2 == S \cup UNION {Children(heap, b) : b \in S} IN IF S2 = S THEN S ELSE Closure(heap, S2)

HeapView(heap, heapPtr, freePtr, roots, hi) ==
  LET lin == Chain(heap, heapPtr, {})
      def == Chain(heap, freePtr, {})
      F == def[2]                        \* the deferred chain ends in the first never-used block
      Deferred == def[1] \ {F}
      Linear == lin[1]
      rootIdx == {p \in DOMAIN roots : roots[p].t = "ptr"}
      rootBlocks == {roots[p].b : p \in rootIdx}
      Reach == Closure(heap, rootBlocks)
      InUse == Closure(heap, rootBlocks \cup UNION {Children(heap, b) : b \in Deferred})
      Holders == InUse \cup Deferred
      Refs(b) == Cardinality({p \in rootIdx : roots[p].b = b})
                 + Cardinality({xi \in Holders \X FieldIdx : FieldFst(heap, xi[1], xi[2]).t = "ptr" /\ FieldFst(heap, xi[1], xi[2]).b = b})
      why ==
        IF ~lin[3] THEN "immediately reusable free list is broken (empty, cyclic or not block-aligned)"
        ELSE IF ~def[3] THEN "deferred free list is broken (cyclic or not block-aligned)"
        ELSE IF \E p \in DOMAIN roots : ~(roots[p].t = "ptr" \/ roots[p] = ZeroV) THEN "a live object variable holds neither a block pointer nor null"
        ELSE IF \E p \in rootIdx : roots[p].o # 0 THEN "a live object variable points into the middle of a block"
        ELSE IF \E b \in Holders, i \in FieldIdx : FieldFst(heap, b, i).t = "ptr" /\ FieldFst(heap, b, i).o # 0 THEN "a field points into the middle of a block"
        ELSE IF Linear \cap InUse # {} THEN "a block on the immediately reusable free list is still referenced (use after release)"
        ELSE IF Deferred \cap InUse # {} THEN "a block on the deferred free list is still referenced (use after release)"
        ELSE IF Linear \cap Deferred # {} THEN "a block is on both free lists (double release)"
        ELSE IF F \in Linear \cup InUse THEN "the allocation frontier block is also in use or on a free list"
        ELSE IF \E b \in Linear \cup Deferred \cup InUse : b > F THEN "a block beyond the allocation frontier is in use"
        ELSE IF (Linear \cup Deferred \cup InUse) # 0..(F - 1) THEN "a block below the allocation frontier is neither reachable nor on a free list (leak)"
        ELSE IF \E b \in InUse : Hdr(heap, b) # IntV(FromNat(Refs(b) - 1)) THEN "reference count is not exact"
        ELSE IF hi > F THEN "memory beyond the allocation frontier was written"
        ELSE ""
  IN [why |-> why, leak |-> (why = "a block below the allocation frontier is neither reachable nor on a free list (leak)"), F |-> F, inuse |-> Cardinality(InUse), reach |-> Cardinality(Reach),
      nlinear |-> Cardinality(Linear), ndeferred |-> Cardinality(Deferred), linearSet |-> Linear, deferredSet |-> Deferred,
      shared |-> Cardinality({b \in InUse : Hdr(heap, b).t = "int" /\ Hdr(heap, b) # ZeroV})]
=============================================================================
