--------------------------- MODULE TracePipeline ---------------------------
(***************************************************************************)
(* Trace validation against spec/Pipeline.tla / PipelineDefs.tla.          *)
(*  kind "stages": one recorded stage-event trace per program (C12, C18):  *)
(*     events must follow the stage order, every outcome must be in the    *)
(*     stage's alphabet (a panic is in no alphabet), nothing may follow a  *)
(*     rejection, a backend may only give up beyond its documented limits. *)
(*  kind "history": the log of one process executing request histories on  *)
(*     fresh Drivers (C17): the content obtained for (source, kind) is the *)
(*     same in every history of every process (Functional); cached values  *)
(*     equal fresh computations (the same pair requested twice in one      *)
(*     history), assembly compared modulo renaming of labels.              *)
(* Each trace is one behaviour; `l` is the position in the trace.          *)
(***************************************************************************)
EXTENDS PipelineDefs, Json, IOUtils, TLC

Traces == JsonDeserialize(IOEnv.SCCV_CASES)   \* seq of [name, kind, events, facts]
\* reference contents for Functional: record "<path>|<kind>" |-> hash, built by the first process
Reference == JsonDeserialize(IOEnv.SCCV_CFG).reference
VARIABLE st

Ev(s) == Traces[s.t].events[s.l]

\* ---- stage traces
StageStep(s) ==
  LET e == Ev(s) f == Traces[s.t].facts IN
  IF s.dead /\ e.stage \notin Backends /\ e.stage \notin SideStages THEN [s EXCEPT !.status = "rejected", !.why = "stage " \o e.stage \o " ran after an earlier stage gave up"]
  ELSE IF e.class \notin Alphabet(e.stage) THEN
       [s EXCEPT !.status = "rejected", !.why = "outcome " \o e.class \o " of stage " \o e.stage \o " is not in its alphabet: " \o e.msg]
  ELSE IF e.stage \in SideStages THEN [s EXCEPT !.l = s.l + 1]
  ELSE IF e.stage \in Backends THEN
       IF s.pos # Len(FrontStages) THEN [s EXCEPT !.status = "rejected", !.why = "backend ran before linearization finished"]
       ELSE IF e.stage \in s.done THEN [s EXCEPT !.status = "rejected", !.why = "backend ran twice"]
       ELSE IF e.class = "capacity" /\ ~CapacityAllowed(e.stage, f) THEN
            [s EXCEPT !.status = "rejected", !.why = "backend " \o e.stage \o " gave up on a program within its documented capacity: " \o e.msg]
       ELSE [s EXCEPT !.l = s.l + 1, !.done = s.done \cup {e.stage}]
  ELSE IF s.pos + 1 > Len(FrontStages) \/ FrontStages[s.pos + 1] # e.stage THEN
       [s EXCEPT !.status = "rejected", !.why = "stage " \o e.stage \o " out of order"]
  ELSE [s EXCEPT !.l = s.l + 1, !.pos = s.pos + 1, !.dead = e.class # "ok"]

\* ---- driver histories: events [hist, path, kind, outcome, hash]
HistStep(s) ==
  LET e == Ev(s) key == e.path \o "|" \o e.kind IN
  IF e.outcome = "capacity" /\ e.kind \in Backends THEN [s EXCEPT !.l = s.l + 1]   \* documented limit: no content to compare
  ELSE IF e.outcome # "ok" THEN [s EXCEPT !.status = "rejected", !.why = "request " \o key \o " failed: " \o e.outcome]
  ELSE IF key \notin DOMAIN Reference THEN [s EXCEPT !.status = "tool", !.why = "no reference content for " \o key]
  ELSE IF Reference[key] # e.hash THEN
       [s EXCEPT !.status = "rejected", !.why = "content of " \o key \o " differs from the reference process (history " \o e.hist \o ")"]
  ELSE [s EXCEPT !.l = s.l + 1]

TInit(t) == [t |-> t, l |-> 1, pos |-> 0, done |-> {}, dead |-> FALSE, status |-> "run", why |-> ""]
Init == st \in {TInit(t) : t \in 1..Len(Traces)}
Step == /\ st.status = "run"
        /\ st' = IF st.l > Len(Traces[st.t].events) THEN [st EXCEPT !.status = "accepted"]
                 ELSE IF Traces[st.t].kind = "stages" THEN StageStep(st) ELSE HistStep(st)
Report == /\ st.status \notin {"run", "reported"}
          /\ PrintT("RESULT " \o ToJson([case |-> Traces[st.t].name, status |-> st.status, why |-> st.why, consumed |-> st.l - 1,
                                          length |-> Len(Traces[st.t].events)]))
          /\ st' = [st EXCEPT !.status = "reported"]
Next == Step \/ Report
Spec == Init /\ [][Next]_st
=============================================================================
