SPECIFICATION Spec
CONSTANT N = 4
INVARIANT Correct
CHECK_DEADLOCK FALSE
