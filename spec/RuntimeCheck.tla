---------------------------- MODULE RuntimeCheck ----------------------------
(***************************************************************************)
(* C20: observations of the real runtime (io.c called stand-alone, the     *)
(* instantiated C driver run with a wrong number of arguments) validated   *)
(* against the contract of spec/Runtime.tla.  One behaviour per record.    *)
(***************************************************************************)
EXTENDS Runtime, Json, IOUtils, TLC
Obs == JsonDeserialize(IOEnv.SCCV_CASES)   \* seq of [name, kind, callee, w, stdout, status]
VARIABLE st
Judge(o) ==
  IF o.kind = "print" THEN
     (IF o.stdout = RenderCall(<<o.callee, o.w>>) THEN <<"agree", "">>
      ELSE <<"fail", o.callee \o " wrote " \o o.stdout \o " where the contract prescribes " \o RenderCall(<<o.callee, o.w>>)>>)
  ELSE IF o.kind = "arity" THEN
     (IF o.status # ArityStatus THEN <<"fail", "wrong number of arguments did not end the process with status 1">>
      ELSE IF o.stdout # ArityMessage THEN <<"fail", "wrong number of arguments: message differs or the program ran">>
      ELSE <<"agree", "">>)
  ELSE <<"tool", "unknown observation kind">>
Init == st \in {[i |-> i, status |-> "run"] : i \in 1..Len(Obs)}
Next == /\ st.status = "run"
        /\ PrintT("RESULT " \o ToJson([case |-> Obs[st.i].name, status |-> Judge(Obs[st.i])[1], why |-> Judge(Obs[st.i])[2]]))
        /\ st' = [st EXCEPT !.status = "reported"]
Spec == Init /\ [][Next]_st
=============================================================================
