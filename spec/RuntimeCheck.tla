---------------------------- MODULE RuntimeCheck ----------------------------
(***************************************************************************)
(* C20: observations of the real runtime (io.c called stand-alone, the     *)
(* instantiated C driver run with a wrong number of arguments) validated   *)
(* against the contract of spec/Runtime.tla.  One behaviour per record.    *)
(***************************************************************************)
EXTENDS Runtime, Json, IOUtils, TLC
Obs == JsonDeserialize(IOEnv.SCCV_CASES)   \* seq of [name, kind, callee, w, stdout, status]
VARIABLE st
Judge(o) ==
  IF o.kind = "print" THEN
     (IF o.stdout = RenderCall(<<o.callee, o.w>>) THEN <<"agree", "">>
      ELSE <<"fail", o.callee \o " wrote " \o o.stdout \o " where the contract prescribes " \o RenderCall(<<o.callee, o.w>>)>>)
  ELSE IF o.kind = "arity" THEN
     \* "reported instead of running": a non-zero status, something written, none of the program's own output (the test programs
     \* print bare integers; o.ranlike says whether standard output contains one).  Wording, stream and status value are free.
     (IF o.status = 0 THEN <<"fail", "wrong number of arguments did not end the process with a non-zero status">>
      ELSE IF o.stdout = "" /\ o.stderr = "" THEN <<"fail", "wrong number of arguments: nothing was reported">>
      ELSE IF o.ranlike THEN <<"fail", "wrong number of arguments: the program ran">>
      ELSE <<"agree", "">>)
  ELSE <<"tool", "unknown observation kind">>
Init == st \in {[i |-> i, status |-> "run"] : i \in 1..Len(Obs)}
Next == /\ st.status = "run"
        /\ PrintT("RESULT " \o ToJson([case |-> Obs[st.i].name, status |-> Judge(Obs[st.i])[1], why |-> Judge(Obs[st.i])[2]]))
        /\ st' = [st EXCEPT !.status = "reported"]
Spec == Init /\ [][Next]_st
=============================================================================
