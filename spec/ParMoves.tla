------------------------------ MODULE ParMoves ------------------------------
(***************************************************************************)
(* C11, design level: the parallel-move algorithm of                       *)
(* axcut2backend/src/parallel_moves.rs (spanning_forest, spanning_tree,    *)
(* tree_moves, root_moves) together with the three backends' mov /         *)
(* store_temporary / restore_temporary / contains_spill_edge, over         *)
(* abstract temporaries 1..N of which the set Spills live in stack slots.  *)
(* An assignment maps each target temporary to its source.  Executing the  *)
(* emitted abstract moves on an arbitrary register file must realise the   *)
(* simultaneous assignment and change nothing but the scratch locations.   *)
(* TLC enumerates every assignment, every spill set of the form k+1..N and *)
(* the three backends.                                                     *)
(***************************************************************************)
EXTENDS Integers, Sequences, FiniteSets, TLC

CONSTANT N
Temps == 1..N
VARIABLE st

\* ---------------------------------------------------------------- trees
Back == [k |-> "back"]
NodeT(t, subs) == [k |-> "node", t |-> t, subs |-> subs]

\* ascending enumeration of a set of temporaries (BTreeSet iteration order)
RECURSIVE Asc(_)
Asc(S) == IF S = {} THEN <<>> ELSE LET m == CHOOSE x \in S : \A y \in S : x <= y IN <<m>> \o Asc(S \ {m})

\* pm: function source |-> set of targets (only sources with an entry are in its domain)
RECURSIVE SpanTree(_, _, _)
SpanTree(pm, root, node) ==
  IF node = root THEN Back
  ELSE IF node \in DOMAIN pm THEN NodeT(node, [i \in 1..Len(Asc(pm[node])) |-> SpanTree(pm, root, Asc(pm[node])[i])])
  ELSE NodeT(node, <<>>)

RECURSIVE Nodes(_)
Nodes(tr) == IF tr.k = "back" THEN {} ELSE {tr.t} \cup UNION {Nodes(tr.subs[i]) : i \in 1..Len(tr.subs)}
RECURSIVE RefersBack(_)
RefersBack(tr) == IF tr.k = "back" THEN TRUE ELSE \E i \in 1..Len(tr.subs) : RefersBack(tr.subs[i])

\* spanning_forest: roots in ascending order of the sources; targets already placed are deleted from every entry
RECURSIVE Forest(_, _)
Forest(pm, keys) ==
  IF keys = <<>> THEN <<>>
  ELSE LET s == Head(keys)
           targets == Asc(pm[s] \ {s})
           trees == [i \in 1..Len(targets) |-> SpanTree(pm, s, targets[i])]
           visited == UNION {Nodes(trees[i]) : i \in 1..Len(trees)} \cup (IF \E i \in 1..Len(trees) : RefersBack(trees[i]) THEN {s} ELSE {})
           pm2 == [k \in DOMAIN pm |-> pm[k] \ visited]
       IN <<[root |-> s, trees |-> trees]>> \o Forest(pm2, Tail(keys))

\* ---------------------------------------------------------------- backends
IsSpill(t) == t \in st.spills

\* x86-64: contains_spill_edge
RECURSIVE EdgeFromSpill(_, _), EdgeFromReg(_, _)
EdgeFromSpill(rootSpill, tr) ==
  IF tr.k = "back" THEN rootSpill
  ELSE IF IsSpill(tr.t) THEN TRUE
  ELSE \E i \in 1..Len(tr.subs) : EdgeFromReg(rootSpill, tr.subs[i])
EdgeFromReg(rootSpill, tr) ==
  IF tr.k = "back" THEN FALSE
  ELSE IF IsSpill(tr.t) THEN \E i \in 1..Len(tr.subs) : EdgeFromSpill(rootSpill, tr.subs[i])
  ELSE \E i \in 1..Len(tr.subs) : EdgeFromReg(rootSpill, tr.subs[i])
ContainsSpillEdge(r) ==
  IF st.backend # "x86" THEN FALSE
  ELSE IF IsSpill(r.root) THEN \E i \in 1..Len(r.trees) : EdgeFromSpill(TRUE, r.trees[i])
  ELSE \E i \in 1..Len(r.trees) : EdgeFromReg(FALSE, r.trees[i])

\* abstract machine state: file (temporaries), scratch registers/slot; "junk" marks a clobbered scratch
Mov(m, t, s) ==
  IF IsSpill(t) /\ IsSpill(s) THEN
     (IF st.backend = "x86" THEN [m EXCEPT !.temp = m.file[s], !.file[t] = m.file[s]]
      ELSE [m EXCEPT !.temp2 = m.file[s], !.file[t] = m.file[s]])
  ELSE [m EXCEPT !.file[t] = m.file[s]]
Store(m, x, csm) ==
  IF st.backend = "x86" THEN
     (IF IsSpill(x) THEN (IF csm THEN [m EXCEPT !.temp = m.file[x], !.slot = m.file[x]] ELSE [m EXCEPT !.temp = m.file[x]])
      ELSE (IF csm THEN [m EXCEPT !.slot = m.file[x]] ELSE [m EXCEPT !.temp = m.file[x]]))
  ELSE [m EXCEPT !.temp = m.file[x]]
Restore(m, r, csm) ==
  IF st.backend = "x86" THEN
     (IF IsSpill(r) THEN (IF csm THEN [m EXCEPT !.temp = m.slot, !.file[r] = m.slot] ELSE [m EXCEPT !.file[r] = m.temp])
      ELSE (IF csm THEN [m EXCEPT !.file[r] = m.slot] ELSE [m EXCEPT !.file[r] = m.temp]))
  ELSE [m EXCEPT !.file[r] = m.temp]

\* tree_moves / root_moves, executed directly on the abstract machine
RECURSIVE TreeMoves(_, _, _, _)
RECURSIVE SubMoves(_, _, _, _, _)
SubMoves(m, src, subs, csm, i) == IF i > Len(subs) THEN m ELSE SubMoves(TreeMoves(m, src, subs[i], csm), src, subs, csm, i + 1)
TreeMoves(m, src, tr, csm) ==
  IF tr.k = "back" THEN Store(m, src, csm)
  ELSE Mov(SubMoves(m, tr.t, tr.subs, csm, 1), tr.t, src)
RootMoves(m, r) ==
  LET csm == ContainsSpillEdge(r)
      m1 == SubMoves(m, r.root, r.trees, csm, 1)
  IN IF \E i \in 1..Len(r.trees) : RefersBack(r.trees[i]) THEN Restore(m1, r.root, csm) ELSE m1
RECURSIVE AllRoots(_, _, _)
AllRoots(m, f, i) == IF i > Len(f) THEN m ELSE AllRoots(RootMoves(m, f[i]), f, i + 1)

\* ---------------------------------------------------------------- the check
PMOf(asg) == [s \in {asg[t] : t \in DOMAIN asg} |-> {t \in DOMAIN asg : asg[t] = s}]
Initial == [file |-> [t \in Temps |-> t], temp |-> 0, temp2 |-> 0, slot |-> 0]
Final == LET pm == PMOf(st.asg) IN AllRoots(Initial, Forest(pm, Asc(DOMAIN pm)), 1)

SimultaneousAssignment == \A t \in DOMAIN st.asg : Final.file[t] = st.asg[t]
OnlyScratchClobbered == \A u \in Temps \ DOMAIN st.asg : Final.file[u] = u
Correct == SimultaneousAssignment /\ OnlyScratchClobbered

\* the three components are drawn separately (TLC refuses to build the product as one set when it has more than 10^6 elements)
VARIABLES vasg, vk, vb
Init == /\ vasg \in UNION {[T -> Temps] : T \in SUBSET Temps}
        /\ vk \in 0..N
        /\ vb \in {"x86", "a64", "rv64"}
        /\ (vb = "rv64" => vk = N)                      \* no spill slots on RISC-V
        /\ st = [asg |-> vasg, spills |-> (vk + 1)..N, backend |-> vb]
Next == UNCHANGED <<st, vasg, vk, vb>>
Spec == Init /\ [][Next]_<<st, vasg, vk, vb>>
=============================================================================
