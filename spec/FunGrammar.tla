----------------------------- MODULE FunGrammar -----------------------------
(***************************************************************************)
(* The concrete syntax of Fun terms as a generative specification: a state *)
(* is a sentential form (sequence of symbols), Next expands the left-most  *)
(* non-terminal with any production, a form without non-terminals is a     *)
(* program body whose token sequence is printed once.  The grammar follows *)
(* the LALRPOP grammar's stratification Term1 < Term2 < Term3 < Term and   *)
(* its lexical quirks (the fused zero-test tokens on both sides, negative  *)
(* literals, explicit parentheses), so every generated token sequence is   *)
(* one the parser accepts.  "Every term form nested in every operand       *)
(* position": a production at depth d > 0 gives depth d-1 to exactly one   *)
(* of its holes; the other holes are filled with one fixed leaf (depth -1), *)
(* the full variety of leaves appears at the innermost hole (depth 0).     *)
(* Fixed tiny signature (C16 only needs parsing, not typing):              *)
(*   data D { A, B(x: i64) }   codata C { d: i64, e(y: i64): i64 }         *)
(***************************************************************************)
EXTENDS Integers, Sequences, FiniteSets, TLC, Json

CONSTANT MaxDepth
VARIABLE form

Tk(s) == [t |-> "tok", s |-> s, d |-> 0]
NT(n, d) == [t |-> "nt", s |-> n, d |-> d]
Toks(ss) == [i \in 1..Len(ss) |-> Tk(ss[i])]

\* a production template: sequence of pieces, each either <<"t", token>> or <<"h", nonterminal name>>
\* Variants(tpl, d): one variant per hole that receives depth d-1 (all other holes get depth 0)
Holes(tpl) == {i \in 1..Len(tpl) : tpl[i][1] = "h"}
Variant(tpl, d, deep) == [i \in 1..Len(tpl) |-> IF tpl[i][1] = "t" THEN Tk(tpl[i][2])
                                                ELSE NT(tpl[i][2], IF i = deep THEN d - 1 ELSE -1)]
Variants(tpl, d) == IF Holes(tpl) = {} THEN {Variant(tpl, d, 0)} ELSE {Variant(tpl, d, h) : h \in Holes(tpl)}

T(s) == <<"t", s>>
H(n) == <<"h", n>>

Leaves1 == {<<T("x")>>, <<T("1")>>, <<T("0")>>, <<T("-"), T("3")>>, <<T("f"), T("("), T("x"), T(")")>>, <<T("c"), T("("), T(")")>>}
Leaves2 == Leaves1 \cup {<<T("A")>>, <<T("new"), T("{"), T("d"), T("=>"), T("1"), T(","), T("e"), T("("), T("y"), T(")"), T("=>"), T("y"), T("}")>>}

Term1Tpl == {<<T("("), H("Term"), T(")")>>,
             <<T("f"), T("("), H("Term"), T(")")>>,
             <<T("g"), T("("), H("Term"), T(","), H("Term"), T(")")>>}
Term2Tpl == {<<T("B"), T("("), H("Term"), T(")")>>,
             <<H("Term2"), T("."), T("case"), T("{"), T("A"), T("=>"), H("Term"), T(","), T("B"), T("("), T("z"), T(")"), T("=>"), H("Term"), T("}")>>,
             <<H("Term2"), T("."), T("case"), T("["), T("i64"), T("]"), T("{"), T("}")>>,
             <<H("Term2"), T("."), T("e"), T("("), H("Term"), T(")")>>,
             <<H("Term2"), T("."), T("d")>>,
             <<H("Term2"), T("."), T("ap"), T("["), T("i64"), T(","), T("D"), T("]"), T("("), H("Term"), T(")")>>,
             <<T("new"), T("{"), T("d"), T("=>"), H("Term"), T(","), T("e"), T("("), T("y"), T(")"), T("=>"), H("Term"), T("}")>>,
             <<T("new"), T("{"), T("}")>>}
OpToks == {"+", "-", "*", "/", "%"}
CmpToks == {"==", "!=", "<", "<=", ">", ">="}
ZeroLeft == {"== 0", "!= 0", "< 0", "<= 0", "> 0", ">= 0"}
ZeroRight == {"0 ==", "0 !=", "0 <", "0 <=", "0 >", "0 >="}
Term3Tpl ==
  {<<H("Term1"), T(o), H("Term1")>> : o \in OpToks}
  \cup {<<T("if"), H("Term"), T(c), H("Term"), T("{"), H("Term"), T("}"), T("else"), T("{"), H("Term"), T("}")>> : c \in CmpToks}
  \cup {<<T("if"), H("Term"), T(z), T("{"), H("Term"), T("}"), T("else"), T("{"), H("Term"), T("}")>> : z \in ZeroLeft}
  \cup {<<T("if"), T(z), H("Term"), T("{"), H("Term"), T("}"), T("else"), T("{"), H("Term"), T("}")>> : z \in ZeroRight}
  \cup {<<T("let"), T("y"), T(":"), T("i64"), T("="), H("Term3"), T(";"), H("Term")>>,
        <<T("let"), T("y"), T(":"), T("L"), T("["), T("i64"), T("]"), T("="), H("Term3"), T(";"), H("Term")>>,
        <<T("label"), T("k"), T("{"), H("Term"), T("}")>>,
        <<T("goto"), T("k"), T("("), H("Term"), T(")")>>,
        <<T("exit"), H("Term")>>}
TermTpl == {<<T("print_i64"), T("("), H("Term"), T(")"), T(";"), H("Term")>>,
            <<T("println_i64"), T("("), H("Term"), T(")"), T(";"), H("Term")>>}

LeafForms(n) == IF n = "Term1" THEN {[i \in 1..Len(l) |-> Tk(l[i][2])] : l \in Leaves1}
                ELSE {[i \in 1..Len(l) |-> Tk(l[i][2])] : l \in Leaves2}

TplsOf(n) == IF n = "Term1" THEN Term1Tpl
             ELSE IF n = "Term2" THEN Term2Tpl \cup Term1Tpl
             ELSE IF n = "Term3" THEN Term3Tpl \cup Term2Tpl \cup Term1Tpl
             ELSE TermTpl \cup Term3Tpl \cup Term2Tpl \cup Term1Tpl

\* all right-hand sides for non-terminal n at depth d
Prods(n, d) == IF d < 0 THEN {<<Tk("x")>>}
               ELSE IF d = 0 THEN LeafForms(n)
               ELSE UNION {Variants(tpl, d) : tpl \in TplsOf(n)}

FirstNT(f) == IF \E i \in 1..Len(f) : f[i].t = "nt" THEN CHOOSE i \in 1..Len(f) : f[i].t = "nt" /\ \A j \in 1..(i - 1) : f[j].t = "tok" ELSE 0
Done(f) == FirstNT(f) = 0

Init == form = <<NT("Term", MaxDepth)>>
Next == /\ ~Done(form)
        /\ LET i == FirstNT(form) IN
           \E rhs \in Prods(form[i].s, form[i].d) :
              form' = SubSeq(form, 1, i - 1) \o rhs \o SubSeq(form, i + 1, Len(form))
Spec == Init /\ [][Next]_form
\* Lexical quirk of the concrete grammar: maximal munch fuses a literal 0 with an adjacent comparison operator into a
\* zero-test token, so a token sequence with "0" directly before or after a comparison token is not the token sequence
\* of any text.  Such forms are not programs of the concrete syntax and are not emitted.
LexOK(f) == \A i \in 1..(Len(f) - 1) :
              /\ ~(f[i].s = "0" /\ f[i + 1].s \in CmpToks \cup ZeroLeft)
              /\ ~(f[i].s \in CmpToks \cup ZeroRight /\ f[i + 1].s = "0")
Emit == (Done(form) /\ LexOK(form)) => PrintT("TERM " \o ToJson([i \in 1..Len(form) |-> form[i].s]))
=============================================================================
