------------------------------ MODULE Runtime ------------------------------
(***************************************************************************)
(* M6: the contract between a compiled program and its process (C20, C01): *)
(*  - parameter i of main <-> argv[i], rendered in decimal (ArgvOf)        *)
(*  - print_i64 writes exactly the decimal rendering, println_i64 the same *)
(*    followed by one newline and nothing else (RenderOut)                 *)
(*  - the exit status is the low eight bits of main's result (ExitStatus)  *)
(*  - a wrong number of arguments is reported instead of running           *)
(***************************************************************************)
EXTENDS Word64, Sequences, SequencesExt

RenderCall(e) == ToDecimal(e[2]) \o (IF e[1] = "println_i64" THEN "\n" ELSE "")
RenderOut(out) == FoldLeft(LAMBDA acc, e : acc \o RenderCall(e), "", out)
ExitStatus(result) == Low8(result)
ArgvOf(args) == [i \in 1..Len(args) |-> ToDecimal(args[i])]
ArityMessage == "wrong number of arguments\n"
ArityStatus == 1
=============================================================================
