------------------------------ MODULE Pipeline ------------------------------
(***************************************************************************)
(* M5: the compiler process (lang/driver/src/lib.rs).  A `Driver` caches   *)
(* every stage per source path; a request for a stage first fills the      *)
(* caches of all earlier stages; emitting assembly draws labels from a     *)
(* process-global counter (axcut2backend/src/fresh_labels.rs).             *)
(*                                                                         *)
(* Abstract state: cache[path] = set of stages computed; counter; the      *)
(* history of requests.  Value model: the content obtained for             *)
(* (path, stage) is Content(path, stage) - a function of the source alone. *)
(* Properties:                                                             *)
(*   Functional     the same (path, stage) always yields the same content  *)
(*                  (checked on traces: a recorded hash must equal the     *)
(*                  first recorded hash of that pair, in every process)    *)
(*   LabelShift     assembly outputs for the same source differ only by a  *)
(*                  constant shift of label numbers, and the shift is the  *)
(*                  number of labels drawn before in this process          *)
(*   NoPanic        outcome alphabets: parse in {ok, parse_error}, check   *)
(*                  in {ok, type_error}, later stages {ok}, backends       *)
(*                  {ok, capacity} with capacity only beyond the           *)
(*                  documented limits                                       *)
(***************************************************************************)
EXTENDS PipelineDefs, TLC

(***************************************************************************)
(* Part A - the abstract driver, used to enumerate request histories.      *)
(***************************************************************************)
CONSTANTS Paths, Kinds, MaxLen
VARIABLES cache, counter, hist

Needs(kind) ==   \* front stages a request of this kind fills, in order
  IF kind = "compiled" THEN 3 ELSE IF kind = "uniquified" THEN 3 ELSE IF kind = "focused" THEN 4 ELSE IF kind = "shrunk" THEN 5 ELSE 6
LabelsDrawn(path, kind) == 1     \* abstractly: every emission draws a positive number of labels

Request(p, k) ==
  /\ Len(hist) < MaxLen
  /\ cache' = [cache EXCEPT ![p] = @ \cup {FrontStages[i] : i \in 1..Needs(k)} \cup (IF k = "uniquified" THEN {"uniquify"} ELSE {})]
  /\ counter' = IF k \in Backends THEN counter + LabelsDrawn(p, k) ELSE counter
  /\ hist' = Append(hist, <<p, k>>)

MCInit == cache = [p \in Paths |-> {}] /\ counter = 0 /\ hist = <<>>
MCNext == \E p \in Paths, k \in Kinds : Request(p, k)
MCSpec == MCInit /\ [][MCNext]_<<cache, counter, hist>>

\* design-level invariants of the abstract model
CachePrefixClosed == \A p \in Paths : \A s \in cache[p] \cap {FrontStages[i] : i \in 1..Len(FrontStages)} :
                        \A j \in 1..StageIdx(s) : FrontStages[j] \in cache[p]
CounterMonotone == [][counter' >= counter]_<<cache, counter, hist>>
=============================================================================
