----------------------------- MODULE CoreTyping -----------------------------
(***************************************************************************)
(* Static walker for Core programs (unfocused, uniquified, focused), as a  *)
(* reachability problem: state = (program, node, typing context, expected  *)
(* kind and type); Next moves to any child.  Rules (C12): every cut joins  *)
(* a producer and a consumer of the annotated type; every (co)match has    *)
(* exactly one clause per declared xtor with matching parameters; every    *)
(* call and xtor matches its signature in length, chirality and type;      *)
(* every variable is bound at the chirality and type it is used at.        *)
(* Mode "unique" (after uniquify / focusing, C03): a binder must not       *)
(* already be in scope along the path, ids are non-zero and <= max_id.     *)
(***************************************************************************)
EXTENDS Integers, Sequences, FiniteSets, TLC, Json, IOUtils

Progs == JsonDeserialize(IOEnv.SCCV_PROGS)    \* seq of [name, mode, prog]
NP == Len(Progs)
VARIABLE st

Q(p) == Progs[p].prog
Node(p, n) == Q(p).nodes[n]
Unique(p) == Progs[p].mode = "unique"

Decls(p, prd) == IF prd THEN Q(p).data ELSE Q(p).codata
\* a constructor (producer xtor) / case (consumer match) lives in a data type; destructor / cocase in a codata type
HasTy(ds, ty) == \E i \in 1..Len(ds) : ds[i].name = ty
TyOf(ds, ty) == ds[CHOOSE i \in 1..Len(ds) : ds[i].name = ty]
HasX(t, x) == \E i \in 1..Len(t.xtors) : t.xtors[i].name = x
XOf(t, x) == t.xtors[CHOOSE i \in 1..Len(t.xtors) : t.xtors[i].name = x]
KnownTy(p, ty) == ty = "i64" \/ HasTy(Q(p).data, ty) \/ HasTy(Q(p).codata, ty)
HasDef(p, l) == l \in DOMAIN Q(p).defidx
DefOf(p, l) == Q(p).defs[Q(p).defidx[l]]

BoundK(ctx, key) == \E i \in 1..Len(ctx) : ctx[i].key = key
LookupK(ctx, key) == ctx[CHOOSE i \in 1..Len(ctx) : ctx[i].key = key /\ \A j \in (i + 1)..Len(ctx) : ctx[j].key # key]
B(b) == [key |-> b.key, prd |-> b.prd, ty |-> b.ty, id |-> b.id]
Strip(c) == [i \in 1..Len(c) |-> B(c[i])]
Kinds(c) == [i \in 1..Len(c) |-> <<c[i].prd, c[i].ty>>]
ArgKinds(p, args) == [i \in 1..Len(args) |-> <<Node(p, args[i]).prd, Node(p, args[i]).ty>>]

\* binder discipline after uniquification
BinderWhy(p, ctx, b) ==
  IF ~Unique(p) THEN ""
  ELSE IF BoundK(ctx, b.key) THEN "binder " \o b.key \o " is already in scope along this path"
  ELSE IF b.id = 0 THEN "binder " \o b.key \o " has id 0 after uniquification"
  ELSE IF b.id > Q(p).max_id THEN "binder " \o b.key \o " has an id above max_id"
  ELSE ""
RECURSIVE BindersWhy(_, _, _)
BindersWhy(p, ctx, bs) ==
  IF bs = <<>> THEN ""
  ELSE LET w == BinderWhy(p, ctx, bs[1]) IN IF w # "" THEN w ELSE BindersWhy(p, Append(ctx, B(bs[1])), Tail(bs))

MuBinding(n) == [key |-> n.var, prd |-> ~n.prd, ty |-> n.ty, id |-> n.varid]

\* exp = <<>> for statements, <<prd, ty>> for a term expected at that chirality and type
Check(p, n, ctx, exp) ==
  IF exp # <<>> /\ (~("prd" \in DOMAIN n) \/ ~("ty" \in DOMAIN n)) THEN "statement where a term is expected"
  ELSE IF exp # <<>> /\ n.prd # exp[1] THEN "term of the wrong chirality (" \o n.k \o ")"
  ELSE IF exp # <<>> /\ n.ty # exp[2] THEN "term of type " \o n.ty \o " where " \o exp[2] \o " is expected (" \o n.k \o ")"
  ELSE IF n.k = "var" THEN
     IF ~BoundK(ctx, n.key) THEN "unbound variable " \o n.key
     ELSE IF LookupK(ctx, n.key).prd # n.prd THEN "variable " \o n.key \o " used at the wrong chirality"
     ELSE IF LookupK(ctx, n.key).ty # n.ty THEN "variable " \o n.key \o " used at type " \o n.ty \o " but bound at " \o LookupK(ctx, n.key).ty
     ELSE ""
  ELSE IF n.k = "lit" THEN (IF ~n.prd \/ n.ty # "i64" THEN "literal is not an i64 producer" ELSE "")
  ELSE IF n.k = "op" THEN (IF ~n.prd \/ n.ty # "i64" THEN "operator is not an i64 producer" ELSE "")
  ELSE IF n.k = "mu" THEN
     IF ~KnownTy(p, n.ty) THEN "abstraction at undeclared type " \o n.ty ELSE BinderWhy(p, ctx, MuBinding(n))
  ELSE IF n.k = "xtor" THEN
     LET ds == Decls(p, n.prd) IN
     IF ~HasTy(ds, n.ty) THEN "xtor " \o n.name \o " at type " \o n.ty \o " which is not a declared " \o (IF n.prd THEN "data" ELSE "codata") \o " type"
     ELSE IF ~HasX(TyOf(ds, n.ty), n.name) THEN "xtor " \o n.name \o " is not declared in type " \o n.ty
     ELSE IF ArgKinds(p, n.args) # Kinds(XOf(TyOf(ds, n.ty), n.name).args) THEN "xtor " \o n.name \o ": arguments do not match the signature in length, chirality or type"
     ELSE ""
  ELSE IF n.k = "xcase" THEN
     LET ds == Decls(p, ~n.prd) IN   \* a case (consumer) matches on data, a cocase (producer) on codata
     IF ~HasTy(ds, n.ty) THEN "(co)match at type " \o n.ty \o " which is not a declared " \o (IF n.prd THEN "codata" ELSE "data") \o " type"
     ELSE LET t == TyOf(ds, n.ty) IN
          IF Len(n.clauses) # Len(t.xtors) THEN "(co)match does not have exactly one clause per declared xtor"
          ELSE IF \E i \in 1..Len(t.xtors) : Cardinality({j \in 1..Len(n.clauses) : n.clauses[j].xtor = t.xtors[i].name}) # 1
               THEN "(co)match does not have exactly one clause per declared xtor"
          ELSE IF \E j \in 1..Len(n.clauses) : Kinds(n.clauses[j].ctx) # Kinds(XOf(t, n.clauses[j].xtor).args)
               THEN "clause parameters do not match the xtor signature"
          ELSE IF \E j \in 1..Len(n.clauses) : BindersWhy(p, ctx, n.clauses[j].ctx) # ""
               THEN BindersWhy(p, ctx, n.clauses[CHOOSE j \in 1..Len(n.clauses) : BindersWhy(p, ctx, n.clauses[j].ctx) # ""].ctx)
          ELSE ""
  ELSE IF n.k = "cut" THEN (IF ~KnownTy(p, n.ty) THEN "cut at undeclared type " \o n.ty ELSE "")
  ELSE IF n.k = "call" THEN
     IF ~HasDef(p, n.name) THEN "call of unknown definition " \o n.name
     ELSE IF ArgKinds(p, n.args) # Kinds(DefOf(p, n.name).ctx) THEN "call of " \o n.name \o ": arguments do not match the signature in length, chirality or type"
     ELSE ""
  ELSE IF n.k \in {"ifc", "print", "exit"} THEN ""
  ELSE "unknown node " \o n.k

\* children: set of <<node, ctx, exp>>
Children(p, n, ctx) ==
  IF n.k \in {"var", "lit"} THEN {}
  ELSE IF n.k = "op" THEN {<<n.fst, ctx, <<TRUE, "i64">> >>, <<n.snd, ctx, <<TRUE, "i64">> >>}
  ELSE IF n.k = "mu" THEN {<<n.stmt, Append(ctx, MuBinding(n)), <<>> >>}
  ELSE IF n.k = "xtor" THEN
     LET sig == XOf(TyOf(Decls(p, n.prd), n.ty), n.name).args
     IN {<<n.args[i], ctx, <<sig[i].prd, sig[i].ty>> >> : i \in 1..Len(n.args)}
  ELSE IF n.k = "xcase" THEN {<<n.clauses[j].body, ctx \o Strip(n.clauses[j].ctx), <<>> >> : j \in 1..Len(n.clauses)}
  ELSE IF n.k = "cut" THEN {<<n.p, ctx, <<TRUE, n.ty>> >>, <<n.c, ctx, <<FALSE, n.ty>> >>}
  ELSE IF n.k = "call" THEN
     LET sig == DefOf(p, n.name).ctx
     IN {<<n.args[i], ctx, <<sig[i].prd, sig[i].ty>> >> : i \in 1..Len(n.args)}
  ELSE IF n.k = "ifc" THEN
     {<<n.fst, ctx, <<TRUE, "i64">> >>, <<n.thenc, ctx, <<>> >>, <<n.elsec, ctx, <<>> >>}
       \cup (IF n.snd = 0 THEN {} ELSE {<<n.snd, ctx, <<TRUE, "i64">> >>})
  ELSE IF n.k = "print" THEN {<<n.arg, ctx, <<TRUE, "i64">> >>, <<n.next, ctx, <<>> >>}
  ELSE IF n.k = "exit" THEN {<<n.arg, ctx, <<TRUE, "i64">> >>}
  ELSE {}

DeclWhy(p) ==
  LET ds == Q(p).data \o Q(p).codata IN
  IF \E i, j \in 1..Len(ds) : i # j /\ ds[i].name = ds[j].name THEN "type declared twice"
  ELSE IF \E i \in 1..Len(ds) : \E a, b \in 1..Len(ds[i].xtors) : a # b /\ ds[i].xtors[a].name = ds[i].xtors[b].name THEN "xtor declared twice in one type"
  ELSE IF \E i, j \in 1..Len(Q(p).defs) : i # j /\ Q(p).defs[i].name = Q(p).defs[j].name THEN "two definitions with the same name (generated and user labels coincide)"
  ELSE IF \E i \in 1..Len(Q(p).defs) : \E a, b \in 1..Len(Q(p).defs[i].ctx) : a # b /\ Q(p).defs[i].ctx[a].key = Q(p).defs[i].ctx[b].key
       THEN "definition with two parameters of the same name"
  ELSE ""

Start(p, d) == [p |-> p, d |-> d, node |-> Q(p).defs[d].body, ctx |-> Strip(Q(p).defs[d].ctx), exp |-> <<>>, status |-> "walk", why |-> ""]
Init == st \in UNION {{Start(p, d) : d \in 1..Len(Q(p).defs)} : p \in 1..NP} \cup
             {[p |-> p, d |-> 0, node |-> 0, ctx |-> <<>>, exp |-> <<>>, status |-> "decl", why |-> ""] : p \in 1..NP}

Walk ==
  /\ st.status = "walk"
  /\ LET n == Node(st.p, st.node) w == Check(st.p, n, st.ctx, st.exp)
     IN IF w # "" THEN st' = [st EXCEPT !.status = "fail", !.why = w]
        ELSE \E ch \in Children(st.p, n, st.ctx) : st' = [st EXCEPT !.node = ch[1], !.ctx = ch[2], !.exp = ch[3]]
Decl ==
  /\ st.status = "decl"
  /\ st' = IF DeclWhy(st.p) # "" THEN [st EXCEPT !.status = "fail", !.why = DeclWhy(st.p)] ELSE [st EXCEPT !.status = "declok"]
Report ==
  /\ st.status = "fail"
  /\ PrintT("RESULT " \o ToJson([case |-> Progs[st.p].name, status |-> "fail", why |-> st.why, def |-> st.d, node |-> st.node]))
  /\ st' = [st EXCEPT !.status = "reported"]
Next == Walk \/ Decl \/ Report
Spec == Init /\ [][Next]_st
=============================================================================
