---------------------------- MODULE AxCutTyping ----------------------------
(***************************************************************************)
(* Static walker for AxCut programs, written as a reachability problem:    *)
(* state = (program, node, typing context); Next moves to any child (both  *)
(* branches, every clause, every method), so TLC's reachable set is        *)
(* literally "every path through every definition".  A state whose node    *)
(* violates a rule is latched and reported once.                           *)
(*  - Mode "named": the non-linear typing discipline (output of shrinking, *)
(*    input of linearization).                                             *)
(*  - Mode "linear": the ordered, linear discipline the backends assume    *)
(*    (C05): the context at each statement is exactly the list that        *)
(*    statement expects.                                                   *)
(* The number of distinct states is the node count weighted by contexts    *)
(* (C19 reuses it as a size measure).                                      *)
(***************************************************************************)
EXTENDS Integers, Sequences, FiniteSets, TLC, Json, IOUtils

Progs == JsonDeserialize(IOEnv.SCCV_PROGS)    \* seq of [name, mode, prog]
NP == Len(Progs)
VARIABLE st

Q(p) == Progs[p].prog
Node(p, n) == Q(p).nodes[n]
Linear(p) == Progs[p].mode = "linear"

HasType(p, ty) == \E i \in 1..Len(Q(p).types) : Q(p).types[i].name = ty
TypeOf(p, ty) == Q(p).types[CHOOSE i \in 1..Len(Q(p).types) : Q(p).types[i].name = ty]
HasXtor(t, x) == \E i \in 1..Len(t.xtors) : t.xtors[i].name = x
XtorOf(t, x) == t.xtors[CHOOSE i \in 1..Len(t.xtors) : t.xtors[i].name = x]
HasDef(p, l) == l \in DOMAIN Q(p).defidx
DefOf(p, l) == Q(p).defs[Q(p).defidx[l]]

Bound(ctx, id) == \E i \in 1..Len(ctx) : ctx[i].id = id
Lookup(ctx, id) == ctx[CHOOSE i \in 1..Len(ctx) : ctx[i].id = id]
B(id, chi, ty) == [id |-> id, chi |-> chi, ty |-> ty]
Strip(c) == [i \in 1..Len(c) |-> B(c[i].id, c[i].chi, c[i].ty)]
Kinds(c) == [i \in 1..Len(c) |-> <<c[i].chi, c[i].ty>>]
Ids(c) == [i \in 1..Len(c) |-> c[i].id]
Distinct(c) == \A i, j \in 1..Len(c) : i # j => c[i].id # c[j].id
Last(c, k) == SubSeq(c, Len(c) - k + 1, Len(c))
Front(c, k) == SubSeq(c, 1, Len(c) - k)

\* does the use `b` (annotated chi/ty) agree with its binding in ctx?
UseOK(ctx, b) == Bound(ctx, b.id) /\ Lookup(ctx, b.id).chi = b.chi /\ Lookup(ctx, b.id).ty = b.ty
IntUse(ctx, id) == Bound(ctx, id) /\ Lookup(ctx, id).chi = "ext" /\ Lookup(ctx, id).ty = "i64"

\* clauses: exactly one per declared xtor, in declaration order, binders matching the signature
ClausesOK(t, cls) ==
  /\ Len(cls) = Len(t.xtors)
  /\ \A i \in 1..Len(cls) : /\ cls[i].xtor = t.xtors[i].name
                            /\ Kinds(cls[i].ctx) = Kinds(t.xtors[i].args)

\* ---- rule check at one state: "" or the reason
Check(p, n, ctx) ==
  LET lin == Linear(p) L == Len(ctx) IN
  IF ~Distinct(ctx) THEN "two variables with the same id in one environment"
  ELSE IF n.k = "substitute" THEN
     IF ~lin THEN "explicit substitution in a non-linear program"
     ELSE IF \E i \in 1..Len(n.re) : ~Bound(ctx, n.re[i].old) THEN "substitute: source not in the environment"
     ELSE IF \E i \in 1..Len(n.re) : Lookup(ctx, n.re[i].old).chi # n.re[i].new.chi \/ Lookup(ctx, n.re[i].old).ty # n.re[i].new.ty
          THEN "substitute: target and source differ in kind or type"
     ELSE IF \E i, j \in 1..Len(n.re) : i # j /\ n.re[i].new.id = n.re[j].new.id THEN "substitute: two targets with the same id"
     ELSE ""
  ELSE IF n.k = "call" THEN
     IF ~HasDef(p, n.label) THEN "call: unknown definition " \o n.label
     ELSE IF lin THEN (IF Kinds(ctx) # Kinds(DefOf(p, n.label).ctx) THEN "call: environment is not exactly the callee's parameter list" ELSE "")
     ELSE IF Kinds(n.args) # Kinds(DefOf(p, n.label).ctx) THEN "call: arguments do not match the callee's signature in length, kind or type"
     ELSE IF \E i \in 1..Len(n.args) : ~UseOK(ctx, n.args[i]) THEN "call: argument unbound or used at the wrong kind/type"
     ELSE ""
  ELSE IF n.k = "let" THEN
     IF ~HasType(p, n.var.ty) THEN "let: undeclared type " \o n.var.ty
     ELSE IF ~HasXtor(TypeOf(p, n.var.ty), n.tag) THEN "let: xtor " \o n.tag \o " not in type " \o n.var.ty
     ELSE IF Kinds(n.args) # Kinds(XtorOf(TypeOf(p, n.var.ty), n.tag).args) THEN "let: arguments do not match the xtor signature"
     ELSE IF n.var.chi # "prd" THEN "let: bound variable is not a producer"
     ELSE IF lin THEN (IF Len(n.args) > L \/ Strip(Last(ctx, Len(n.args))) # Strip(n.args) THEN "let: environment is not rest followed by the arguments" ELSE "")
     ELSE IF \E i \in 1..Len(n.args) : ~UseOK(ctx, n.args[i]) THEN "let: argument unbound or used at the wrong kind/type"
     ELSE ""
  ELSE IF n.k = "switch" THEN
     IF ~HasType(p, n.ty) THEN "switch: undeclared type " \o n.ty
     ELSE IF ~ClausesOK(TypeOf(p, n.ty), n.clauses) THEN "switch: clauses are not exactly one per declared xtor, in order, with matching binders"
     ELSE IF ~Bound(ctx, n.var) \/ Lookup(ctx, n.var).chi # "prd" \/ Lookup(ctx, n.var).ty # n.ty THEN "switch: scrutinee unbound or not a producer of the annotated type"
     ELSE IF lin /\ ctx[L].id # n.var THEN "switch: environment is not rest followed by the scrutinee"
     ELSE ""
  ELSE IF n.k = "create" THEN
     IF ~HasType(p, n.var.ty) THEN "create: undeclared type " \o n.var.ty
     ELSE IF ~ClausesOK(TypeOf(p, n.var.ty), n.clauses) THEN "create: clauses are not exactly one per declared xtor, in order, with matching binders"
     ELSE IF n.var.chi # "cns" THEN "create: bound variable is not a consumer"
     ELSE IF lin THEN
          (IF ~n.hasenv THEN "create: closure environment not annotated"
           ELSE IF Len(n.env) > L \/ Strip(Last(ctx, Len(n.env))) # Strip(n.env) THEN "create: environment is not rest followed by the captured environment"
           ELSE "")
     ELSE ""
  ELSE IF n.k = "invoke" THEN
     IF ~HasType(p, n.ty) THEN "invoke: undeclared type " \o n.ty
     ELSE IF ~HasXtor(TypeOf(p, n.ty), n.tag) THEN "invoke: xtor " \o n.tag \o " not in type " \o n.ty
     ELSE IF ~Bound(ctx, n.var) \/ Lookup(ctx, n.var).chi # "cns" \/ Lookup(ctx, n.var).ty # n.ty THEN "invoke: closure unbound or not a consumer of the annotated type"
     ELSE IF lin THEN
          (IF ctx[L].id # n.var \/ Kinds(Front(ctx, 1)) # Kinds(XtorOf(TypeOf(p, n.ty), n.tag).args)
           THEN "invoke: environment is not the arguments followed by the closure" ELSE "")
     ELSE IF Kinds(n.args) # Kinds(XtorOf(TypeOf(p, n.ty), n.tag).args) THEN "invoke: arguments do not match the xtor signature"
     ELSE IF \E i \in 1..Len(n.args) : ~UseOK(ctx, n.args[i]) THEN "invoke: argument unbound or used at the wrong kind/type"
     ELSE ""
  ELSE IF n.k = "lit" THEN (IF n.var.chi # "ext" \/ n.var.ty # "i64" THEN "lit: bound variable is not an integer" ELSE "")
  ELSE IF n.k = "op" THEN (IF ~IntUse(ctx, n.fst) \/ ~IntUse(ctx, n.snd) THEN "op: operand unbound or not an integer" ELSE "")
  ELSE IF n.k = "print" THEN (IF ~IntUse(ctx, n.var) THEN "print: operand unbound or not an integer" ELSE "")
  ELSE IF n.k = "ifc" THEN (IF ~IntUse(ctx, n.fst) \/ (n.snd # 0 /\ ~IntUse(ctx, n.snd)) THEN "ifc: operand unbound or not an integer" ELSE "")
  ELSE IF n.k = "exit" THEN (IF ~IntUse(ctx, n.var) THEN "exit: operand unbound or not an integer" ELSE "")
  ELSE "unknown statement " \o n.k

\* ---- children: set of <<node, context>>
Children(p, n, ctx) ==
  LET lin == Linear(p) L == Len(ctx) IN
  IF n.k = "substitute" THEN {<<n.next, Strip([i \in 1..Len(n.re) |-> n.re[i].new])>>}
  ELSE IF n.k \in {"call", "invoke", "exit"} THEN {}
  ELSE IF n.k = "let" THEN
     {<<n.next, (IF lin THEN Front(ctx, Len(n.args)) ELSE ctx) \o <<B(n.var.id, "prd", n.var.ty)>> >>}
  ELSE IF n.k = "switch" THEN
     {<<n.clauses[i].body, (IF lin THEN Front(ctx, 1) ELSE ctx) \o Strip(n.clauses[i].ctx)>> : i \in 1..Len(n.clauses)}
  ELSE IF n.k = "create" THEN
     {<<n.clauses[i].body, IF lin THEN Strip(n.clauses[i].ctx) \o Strip(n.env) ELSE ctx \o Strip(n.clauses[i].ctx)>> : i \in 1..Len(n.clauses)}
       \cup {<<n.next, (IF lin THEN Front(ctx, Len(n.env)) ELSE ctx) \o <<B(n.var.id, "cns", n.var.ty)>> >>}
  ELSE IF n.k \in {"lit", "op"} THEN {<<n.next, Append(ctx, B(n.var.id, "ext", "i64"))>>}
  ELSE IF n.k = "print" THEN {<<n.next, ctx>>}
  ELSE IF n.k = "ifc" THEN {<<n.thenc, ctx>>, <<n.elsec, ctx>>}
  ELSE {}

\* declarations: xtor names unique within a type, argument types declared
DeclWhy(p) ==
  LET ts == Q(p).types IN
  IF \E i, j \in 1..Len(ts) : i # j /\ ts[i].name = ts[j].name THEN "type declared twice"
  ELSE IF \E i \in 1..Len(ts) : \E a, b \in 1..Len(ts[i].xtors) : a # b /\ ts[i].xtors[a].name = ts[i].xtors[b].name THEN "xtor declared twice in one type"
  ELSE IF \E i \in 1..Len(ts) : \E a \in 1..Len(ts[i].xtors) : \E f \in 1..Len(ts[i].xtors[a].args) :
            LET g == ts[i].xtors[a].args[f] IN ~((g.chi = "ext" /\ g.ty = "i64") \/ (g.chi \in {"prd", "cns"} /\ g.ty # "i64"))
       THEN "xtor argument of an ill-formed kind"
  ELSE IF \E i, j \in 1..Len(Q(p).defs) : i # j /\ Q(p).defs[i].name = Q(p).defs[j].name THEN "definition declared twice"
  ELSE ""

Start(p, d) == [p |-> p, d |-> d, node |-> Q(p).defs[d].body, ctx |-> Strip(Q(p).defs[d].ctx), status |-> "walk", why |-> ""]
Init == st \in UNION {{Start(p, d) : d \in 1..Len(Q(p).defs)} : p \in 1..NP} \cup
             {[p |-> p, d |-> 0, node |-> 0, ctx |-> <<>>, status |-> "decl", why |-> ""] : p \in 1..NP}

Walk ==
  /\ st.status = "walk"
  /\ LET n == Node(st.p, st.node) w == Check(st.p, n, st.ctx)
     IN IF w # "" THEN st' = [st EXCEPT !.status = "fail", !.why = w \o " (" \o n.k \o ")"]
        ELSE \E ch \in Children(st.p, n, st.ctx) : st' = [st EXCEPT !.node = ch[1], !.ctx = ch[2]]
Decl ==
  /\ st.status = "decl"
  /\ st' = IF DeclWhy(st.p) # "" THEN [st EXCEPT !.status = "fail", !.why = DeclWhy(st.p)] ELSE [st EXCEPT !.status = "declok"]
Report ==
  /\ st.status = "fail"
  /\ PrintT("RESULT " \o ToJson([case |-> Progs[st.p].name, status |-> "fail", why |-> st.why, def |-> st.d, node |-> st.node]))
  /\ st' = [st EXCEPT !.status = "reported"]
Next == Walk \/ Decl \/ Report
Spec == Init /\ [][Next]_st
=============================================================================
