-------------------------------- MODULE Equiv --------------------------------
(***************************************************************************)
(* Observational equivalence of two stage outputs on their abstract        *)
(* machines (C02: Fun vs Core, C03: Core vs focused Core, C04: focused     *)
(* Core vs AxCut, C05: AxCut named vs linear).  Each (pair, argument       *)
(* tuple) is one behaviour: machine a runs to completion, then machine b   *)
(* within a budget proportional to a's, then the observables (print        *)
(* sequence, result, termination) are compared and the verdict is latched  *)
(* and reported once.                                                      *)
(***************************************************************************)
EXTENDS FunMachine, CoreMachine, AxCutMachine, Json, IOUtils

Progs == JsonDeserialize(IOEnv.SCCV_PROGS)   \* seq of [name, kind, prog]
Cases == JsonDeserialize(IOEnv.SCCV_CASES)   \* seq of [name, a, b, args]
Cfg   == JsonDeserialize(IOEnv.SCCV_CFG)     \* [maxsteps, factor, slack]
NC == Len(Cases)
VARIABLE st

MInit(p, args) ==
  LET k == Progs[p].kind Q == Progs[p].prog
  IN IF k = "fun" THEN FInit(Q, args)
     ELSE IF k = "core" THEN CInit(Q, args)
     ELSE AInit(Q, args)
MStep(p, m) ==
  LET k == Progs[p].kind Q == Progs[p].prog
  IN IF k = "fun" THEN FStep(Q, m)
     ELSE IF k = "core" THEN CStep(Q, m)
     ELSE IF k = "axcut" THEN AStep(Q, m, FALSE)
     ELSE AStep(Q, m, TRUE)

EInit(c) == [c |-> c, a |-> MInit(Cases[c].a, Cases[c].args), b |-> MInit(Cases[c].b, Cases[c].args),
             status |-> "run", tag |-> "", why |-> ""]

Verdict(s) ==
  LET a == s.a b == s.b IN
  IF a.status = "fail" THEN [s EXCEPT !.status = "hypothesis", !.tag = "stuck-a", !.why = a.why]
  ELSE IF a.status # "done" THEN [s EXCEPT !.status = "excluded", !.tag = a.status]
  ELSE IF b.status = "fail" THEN [s EXCEPT !.status = "fail", !.tag = "stuck", !.why = "translated program gets stuck: " \o b.why]
  ELSE IF b.status = "step-bound" THEN [s EXCEPT !.status = "fail", !.tag = "termination", !.why = "translated program does not terminate within the proportional step budget"]
  ELSE IF b.status = "source-undefined" THEN [s EXCEPT !.status = "fail", !.tag = "obs", !.why = "translated program performs an undefined division where the source is defined"]
  ELSE IF a.out # b.out THEN [s EXCEPT !.status = "fail", !.tag = "obs", !.why = "output differs"]
  ELSE IF a.result # b.result THEN [s EXCEPT !.status = "fail", !.tag = "obs", !.why = "result differs"]
  ELSE [s EXCEPT !.status = "agree"]

EStep(s) ==
  LET c == s.c IN
  IF s.a.status = "run" THEN
     (IF s.a.steps > Cfg.maxsteps THEN [s EXCEPT !.a.status = "step-bound"] ELSE [s EXCEPT !.a = MStep(Cases[c].a, s.a)])
  ELSE IF s.a.status = "done" /\ s.b.status = "run" THEN
     (IF s.b.steps > Cfg.factor * s.a.steps + Cfg.slack THEN [s EXCEPT !.b.status = "step-bound"] ELSE [s EXCEPT !.b = MStep(Cases[c].b, s.b)])
  ELSE Verdict(s)

Init == st \in {EInit(c) : c \in 1..NC}
Run == st.status = "run" /\ st' = EStep(st)
Report == /\ st.status \notin {"run", "reported"}
          /\ PrintT("RESULT " \o ToJson([case |-> Cases[st.c].name, status |-> st.status, tag |-> st.tag, why |-> st.why,
                                          asteps |-> st.a.steps, bsteps |-> st.b.steps, nout |-> Len(st.a.out),
                                          res |-> st.a.result, bres |-> st.b.result,
                                          aout |-> IF st.status = "fail" THEN st.a.out ELSE <<>>,
                                          bout |-> IF st.status = "fail" THEN st.b.out ELSE <<>>]))
          /\ st' = [st EXCEPT !.status = "reported"]
Next == Run \/ Report
Spec == Init /\ [][Next]_st
=============================================================================
