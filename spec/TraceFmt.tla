------------------------------- MODULE TraceFmt -------------------------------
(***************************************************************************)
(* C16: formatting never changes a program.  Each record is one replay of  *)
(* the real printer and parser on a program whose token sequence was       *)
(* derived by spec/FunGrammar.tla (or generated / taken from the corpus):  *)
(* for width w and indentation i the printed text                          *)
(*   Reparses        is accepted by the parser                             *)
(*   SameTree        parses to the same syntax tree (positions aside)      *)
(*   Fixpoint        prints to the same text again                         *)
(* (The records also say whether the non-blank characters equal those of  *)
(* the widest rendering; C16 does not require that - a formatter may add a *)
(* trailing comma when a list breaks - so it is recorded, not judged.)     *)
(* One behaviour per program; the first failing record is reported.        *)
(***************************************************************************)
EXTENDS Integers, Sequences, TLC, Json, IOUtils
Runs == JsonDeserialize(IOEnv.SCCV_CASES)   \* seq of [name, parse, records: seq of [w, i, reparse, tree, fix, nonblank]]
VARIABLE st
Bad(r) == {k \in 1..Len(r.records) : ~(r.records[k].reparse /\ r.records[k].tree /\ r.records[k].fix)}
Why(r) ==
  IF r.parse # "ok" THEN <<"unparsable", "the parser rejects a program derived from the grammar specification: " \o r.parse>>
  ELSE IF Bad(r) = {} THEN <<"accepted", "">>
  ELSE LET k == CHOOSE k \in Bad(r) : \A j \in Bad(r) : k <= j
           x == r.records[k]
       IN <<"rejected", (IF ~x.reparse THEN "printed text does not parse" ELSE IF ~x.tree THEN "printed text parses to a different tree"
                         ELSE "printing is not a fixpoint")
                        \o " at width " \o ToString(x.w) \o ", indent " \o ToString(x.i)>>
Init == st \in {[r |-> r, status |-> "run"] : r \in 1..Len(Runs)}
Next == /\ st.status = "run"
        /\ PrintT("RESULT " \o ToJson([case |-> Runs[st.r].name, status |-> Why(Runs[st.r])[1], why |-> Why(Runs[st.r])[2], n |-> Len(Runs[st.r].records)]))
        /\ st' = [st EXCEPT !.status = "reported"]
Spec == Init /\ [][Next]_st
=============================================================================
