-------------------------------- MODULE Sizes --------------------------------
(***************************************************************************)
(* C19: output size is polynomial.  For every scalable family and every    *)
(* stage the measured sizes s(k) at depth k (node counts of the dumped     *)
(* intermediate programs, instruction counts of the tokenised assembly)    *)
(* must satisfy                                                            *)
(*   Growth      s(16) <= 10 * s(8)  and  s(12) <= 40 * s(4)               *)
(*               (2^k growth gives factors 256; a cubic gives 8 and 27)    *)
(*   Quadratic   s(k) <= Cq * src(k)^2 for all measured k                  *)
(* TLC only evaluates the bound on the measured table.                     *)
(***************************************************************************)
EXTENDS Integers, Sequences, TLC, Json, IOUtils
Fams == JsonDeserialize(IOEnv.SCCV_CASES)   \* seq of [name, stage, ks, src, size]
Cq == 8
VARIABLE st
At(f, k) == f.size[CHOOSE i \in 1..Len(f.ks) : f.ks[i] = k]
SrcAt(f, k) == f.src[CHOOSE i \in 1..Len(f.ks) : f.ks[i] = k]
Why(f) ==
  IF At(f, 16) > 10 * At(f, 8) THEN "size grows by more than a factor 10 from depth 8 to depth 16"
  ELSE IF At(f, 12) > 40 * At(f, 4) THEN "size grows by more than a factor 40 from depth 4 to depth 12"
  ELSE IF \E i \in 1..Len(f.ks) : f.size[i] > Cq * f.src[i] * f.src[i] THEN "size exceeds Cq * (source size)^2"
  ELSE ""
Init == st \in {[f |-> f, status |-> "run"] : f \in 1..Len(Fams)}
Next == /\ st.status = "run"
        /\ PrintT("RESULT " \o ToJson([case |-> Fams[st.f].name \o ":" \o Fams[st.f].stage, status |-> IF Why(Fams[st.f]) = "" THEN "ok" ELSE "fail",
                                        why |-> Why(Fams[st.f]), size |-> Fams[st.f].size, src |-> Fams[st.f].src]))
        /\ st' = [st EXCEPT !.status = "reported"]
Spec == Init /\ [][Next]_st
=============================================================================
