----------------------------- MODULE TestWord64 -----------------------------
(* Conformance of spec/Word64.tla with Rust's i64 (wrapping add/sub/mul/neg, truncating div/rem, signed comparison,  *)
(* decimal rendering, low byte): every vector computed by the harness must be reproduced.  One behaviour per vector.  *)
EXTENDS Word64, Json, IOUtils, TLC
Vec == JsonDeserialize(IOEnv.SCCV_CASES)
VARIABLE st
Bad(v) ==
  IF Add(v.a, v.b) # v.add THEN "add" ELSE IF Sub(v.a, v.b) # v.sub THEN "sub" ELSE IF Mul(v.a, v.b) # v.mul THEN "mul"
  ELSE IF Neg(v.a) # v.neg THEN "neg"
  ELSE IF DivDefined(v.a, v.b) # v.divdef THEN "divdef"
  ELSE IF v.divdef /\ SDiv(v.a, v.b) # v.div THEN "div" ELSE IF v.divdef /\ SRem(v.a, v.b) # v.rem THEN "rem"
  ELSE IF SLt(v.a, v.b) # v.lt THEN "lt" ELSE IF SLe(v.a, v.b) # v.le THEN "le"
  ELSE IF ToDecimal(v.a) # v.dec THEN "dec" ELSE IF Low8(v.a) # v.low8 THEN "low8"
  ELSE IF BitAnd(v.a, v.b) # v.and THEN "and" ELSE IF BitOr(v.a, v.b) # v.or THEN "or" ELSE IF BitXor(v.a, v.b) # v.xor THEN "xor"
  ELSE IF Shl(v.a, v.sh) # v.shl THEN "shl" ELSE IF Shr(v.a, v.sh) # v.shr THEN "shr" ELSE IF Sar(v.a, v.sh) # v.sar THEN "sar" ELSE ""
Init == st \in {[i |-> i, status |-> "run"] : i \in 1..Len(Vec)}
Next == /\ st.status = "run"
        /\ PrintT("RESULT " \o ToJson([case |-> ToString(st.i), status |-> IF Bad(Vec[st.i]) = "" THEN "ok" ELSE "fail", why |-> Bad(Vec[st.i])]))
        /\ st' = [st EXCEPT !.status = "reported"]
Spec == Init /\ [][Next]_st
=============================================================================
