------------------------------ MODULE Surface ------------------------------
(***************************************************************************)
(* C01, surface syntax: the meaning of operator spellings, read            *)
(* independently of the implementation's parser.  A case says which        *)
(* operator was written between which two operand *values* (the driver     *)
(* knows them from the spelling it generated: `0 <= n` has left value 0    *)
(* and right value n, `n - -3` has right value -3, ...), and what the      *)
(* natively executed program printed for `if L op R { 1 } else { 0 }` or   *)
(* for `L op R`.  The meaning is the one of the source semantics: signed   *)
(* 64-bit comparison, wrapping arithmetic, truncating division.            *)
(***************************************************************************)
EXTENDS Word64, Json, IOUtils, TLC, Sequences
Cases == JsonDeserialize(IOEnv.SCCV_CASES)   \* seq of [name, op, a, b, observed (limbs), text]
VARIABLE st
Bool(x) == IF x THEN One ELSE Zero
Meaning(op, a, b) ==
  IF op = "==" THEN Bool(a = b) ELSE IF op = "!=" THEN Bool(a # b)
  ELSE IF op = "<" THEN Bool(SLt(a, b)) ELSE IF op = "<=" THEN Bool(SLe(a, b))
  ELSE IF op = ">" THEN Bool(SLt(b, a)) ELSE IF op = ">=" THEN Bool(SLe(b, a))
  ELSE IF op = "+" THEN Add(a, b) ELSE IF op = "-" THEN Sub(a, b) ELSE IF op = "*" THEN Mul(a, b)
  ELSE IF op = "/" THEN SDiv(a, b) ELSE SRem(a, b)
Judge(c) ==
  IF c.op \in {"/", "%"} /\ ~DivDefined(c.a, c.b) THEN <<"excluded", "">>
  ELSE IF Meaning(c.op, c.a, c.b) = c.observed THEN <<"agree", "">>
  ELSE <<"fail", "the executable computes something else for " \o c.text>>
Init == st \in {[i |-> i, status |-> "run"] : i \in 1..Len(Cases)}
Next == /\ st.status = "run"
        /\ PrintT("RESULT " \o ToJson([case |-> Cases[st.i].name, status |-> Judge(Cases[st.i])[1], why |-> Judge(Cases[st.i])[2]]))
        /\ st' = [st EXCEPT !.status = "reported"]
Spec == Init /\ [][Next]_st
=============================================================================
