----------------------------- MODULE FunMachine -----------------------------
(***************************************************************************)
(* M0: CEK machine for checked Fun programs (DESIGN Appendix A.1): 64-bit  *)
(* wrapping arithmetic, truncating division, eager integers and data,      *)
(* by-name codata, first-class labels, immediate termination on exit.      *)
(* Program record Q (ser_fun.rs): nodes, defs, defidx.  Operators are      *)
(* prefixed F; state [ctl, stk, out, status, why, result, steps].          *)
(***************************************************************************)
EXTENDS Integers, Sequences, FiniteSets, TLC, Word64

FNode(Q, n) == Q.nodes[n]
FHasDef(Q, name) == name \in DOMAIN Q.defidx
FDefBy(Q, name) == Q.defs[Q.defidx[name]]
FClauseOf(cls, x) == cls[CHOOSE i \in 1..Len(cls) : cls[i].xtor = x]
FHasClause(cls, x) == \E i \in 1..Len(cls) : cls[i].xtor = x

FIntV(w) == [t |-> "int", w |-> w]
\* right-most binding wins for duplicate names
FBindNames(names, vs) == [k \in {names[i] : i \in 1..Len(names)} |->
                           vs[CHOOSE i \in 1..Len(names) : names[i] = k /\ \A j \in (i+1)..Len(names) : names[j] # k]]

FFail(s, why) == [s EXCEPT !.status = "fail", !.why = why]
FGo(s, ctl) == [s EXCEPT !.ctl = ctl, !.steps = s.steps + 1]
FEval(n, env) == [k |-> "eval", n |-> n, env |-> env]
FRet(v) == [k |-> "ret", v |-> v]
FArgs(done, rest, env, then) == [k |-> "args", done |-> done, rest |-> rest, env |-> env, then |-> then]
FPush(s, f) == [s EXCEPT !.stk = <<f>> \o s.stk]

\* by-name value of a codata-typed term
FDelay(Q, n, env) ==
  LET t == FNode(Q, n)
  IN IF t.k = "var" THEN (IF t.name \in DOMAIN env THEN env[t.name] ELSE [t |-> "unbound"])
     ELSE IF t.k = "new" THEN [t |-> "obj", n |-> n, env |-> env]
     ELSE IF t.k = "paren" THEN [t |-> "thunk", n |-> t.inner, env |-> env]
     ELSE [t |-> "thunk", n |-> n, env |-> env]

FIntOp(op, a, b) == IF op = "add" THEN Add(a, b) ELSE IF op = "sub" THEN Sub(a, b) ELSE IF op = "mul" THEN Mul(a, b)
                   ELSE IF op = "div" THEN SDiv(a, b) ELSE SRem(a, b)
FCmp(sort, a, b) == IF sort = "eq" THEN a = b ELSE IF sort = "ne" THEN a # b ELSE IF sort = "lt" THEN SLt(a, b)
                   ELSE IF sort = "le" THEN SLe(a, b) ELSE IF sort = "gt" THEN SLt(b, a) ELSE SLe(b, a)

FFinish(Q, s, then, vals) ==
  IF then.kind = "op" THEN
     IF vals[1].t # "int" \/ vals[2].t # "int" THEN FFail(s, "operator on non-integers")
     ELSE IF then.op \in {"div", "rem"} /\ ~DivDefined(vals[1].w, vals[2].w) THEN [s EXCEPT !.status = "source-undefined"]
     ELSE FGo(s, FRet(FIntV(FIntOp(then.op, vals[1].w, vals[2].w))))
  ELSE IF then.kind = "ifc" THEN
     LET n == FNode(Q, then.n) b == IF Len(vals) = 2 THEN vals[2].w ELSE Zero
     IN FGo(s, FEval(IF FCmp(n.sort, vals[1].w, b) THEN n.thenc ELSE n.elsec, then.env))
  ELSE IF then.kind = "call" THEN
     IF ~FHasDef(Q, then.name) THEN FFail(s, "call of unknown definition")
     ELSE LET d == FDefBy(Q, then.name)
          IN IF Len(d.params) # Len(vals) THEN FFail(s, "call arity")
             ELSE FGo(s, FEval(d.body, FBindNames([i \in 1..Len(d.params) |-> d.params[i].name], vals)))
  ELSE IF then.kind = "ctor" THEN FGo(s, FRet([t |-> "data", tag |-> then.name, fs |-> vals]))
  ELSE IF then.kind = "dtor" THEN FGo(FPush(s, [f |-> "dtor", name |-> then.name, args |-> vals]), FEval(then.scrut, then.env))
  ELSE IF then.kind = "print" THEN
     LET n == FNode(Q, then.n)
     IN [FGo(s, FEval(n.next, then.env)) EXCEPT !.out = Append(s.out, <<IF n.nl THEN "println_i64" ELSE "print_i64", vals[1].w>>)]
  ELSE IF then.kind = "exit" THEN [s EXCEPT !.status = "done", !.result = vals[1].w]
  ELSE FFail(s, "unknown continuation")

FStep(Q, s) ==
  LET ctl == s.ctl IN
  IF ctl.k = "eval" THEN
     LET t == FNode(Q, ctl.n) env == ctl.env IN
     IF t.k = "var" THEN (IF t.name \in DOMAIN env THEN FGo(s, FRet(env[t.name])) ELSE FFail(s, "unbound variable " \o t.name))
     ELSE IF t.k = "lit" THEN FGo(s, FRet(FIntV(t.w)))
     ELSE IF t.k = "paren" THEN FGo(s, FEval(t.inner, env))
     ELSE IF t.k = "op" THEN FGo(s, FArgs(<<>>, <<t.fst, t.snd>>, env, [kind |-> "op", op |-> t.op]))
     ELSE IF t.k = "ifc" THEN FGo(s, FArgs(<<>>, IF t.snd = 0 THEN <<t.fst>> ELSE <<t.fst, t.snd>>, env, [kind |-> "ifc", n |-> ctl.n, env |-> env]))
     ELSE IF t.k = "print" THEN FGo(s, FArgs(<<>>, <<t.arg>>, env, [kind |-> "print", n |-> ctl.n, env |-> env]))
     ELSE IF t.k = "exit" THEN FGo([s EXCEPT !.stk = <<>>], FArgs(<<>>, <<t.arg>>, env, [kind |-> "exit"]))
     ELSE IF t.k = "let" THEN
        IF t.varcod THEN
           LET v == FDelay(Q, t.bound, env)
           IN IF v.t = "unbound" THEN FFail(s, "unbound variable in let") ELSE FGo(s, FEval(t.body, (t.var :> v) @@ env))
        ELSE FGo(FPush(s, [f |-> "let", var |-> t.var, n |-> t.body, env |-> env]), FEval(t.bound, env))
     ELSE IF t.k = "call" THEN FGo(s, FArgs(<<>>, t.args, env, [kind |-> "call", name |-> t.name]))
     ELSE IF t.k = "ctor" THEN FGo(s, FArgs(<<>>, t.args, env, [kind |-> "ctor", name |-> t.name]))
     ELSE IF t.k = "dtor" THEN FGo(s, FArgs(<<>>, t.args, env, [kind |-> "dtor", name |-> t.name, scrut |-> t.scrut, env |-> env]))
     ELSE IF t.k = "case" THEN FGo(FPush(s, [f |-> "case", n |-> ctl.n, env |-> env]), FEval(t.scrut, env))
     ELSE IF t.k = "new" THEN FGo(s, FRet([t |-> "obj", n |-> ctl.n, env |-> env]))
     ELSE IF t.k = "label" THEN FGo(s, FEval(t.body, (t.label :> [t |-> "cont", stk |-> s.stk]) @@ env))
     ELSE IF t.k = "goto" THEN
        IF t.target \notin DOMAIN env \/ env[t.target].t # "cont" THEN FFail(s, "goto: target is not a label")
        ELSE FGo([s EXCEPT !.stk = env[t.target].stk], FEval(t.arg, env))
     ELSE FFail(s, "unknown term")
  ELSE IF ctl.k = "args" THEN
     IF ctl.rest = <<>> THEN FFinish(Q, s, ctl.then, ctl.done)
     ELSE LET an == Head(ctl.rest) a == FNode(Q, an) env == ctl.env rest == Tail(ctl.rest)
              push(v) == IF v.t = "unbound" THEN FFail(s, "unbound variable in argument")
                         ELSE FGo(s, FArgs(Append(ctl.done, v), rest, env, ctl.then))
          IN IF a.k = "var" THEN push(IF a.name \in DOMAIN env THEN env[a.name] ELSE [t |-> "unbound"])
             ELSE IF a.cod THEN push(FDelay(Q, an, env))
             ELSE FGo(FPush(s, [f |-> "args", done |-> ctl.done, rest |-> rest, env |-> env, then |-> ctl.then]), FEval(an, env))
  ELSE IF ctl.k = "ret" THEN
     LET v == ctl.v IN
     IF s.stk = <<>> THEN (IF v.t = "int" THEN [s EXCEPT !.status = "done", !.result = v.w] ELSE FFail(s, "main returned a non-integer"))
     ELSE LET f == Head(s.stk) s1 == [s EXCEPT !.stk = Tail(s.stk)] IN
       IF f.f = "args" THEN FGo(s1, FArgs(Append(f.done, v), f.rest, f.env, f.then))
       ELSE IF f.f = "let" THEN FGo(s1, FEval(f.n, (f.var :> v) @@ f.env))
       ELSE IF f.f = "case" THEN
          LET cls == FNode(Q, f.n).clauses
          IN IF v.t # "data" \/ ~FHasClause(cls, v.tag) THEN FFail(s, "case: no clause for value")
             ELSE LET cl == FClauseOf(cls, v.tag)
                  IN IF Len(cl.binders) # Len(v.fs) THEN FFail(s, "case: clause arity")
                     ELSE FGo(s1, FEval(cl.body, FBindNames(cl.binders, v.fs) @@ f.env))
       ELSE IF f.f = "dtor" THEN
          IF v.t = "obj" THEN
             LET cls == FNode(Q, v.n).clauses
             IN IF ~FHasClause(cls, f.name) THEN FFail(s, "new: no clause for destructor")
                ELSE LET cl == FClauseOf(cls, f.name)
                     IN IF Len(cl.binders) # Len(f.args) THEN FFail(s, "new: clause arity")
                        ELSE FGo(s1, FEval(cl.body, FBindNames(cl.binders, f.args) @@ v.env))
          ELSE IF v.t = "thunk" THEN FGo(s, FEval(v.n, v.env))     \* by name: force under the same destructor frame
          ELSE FFail(s, "destructor applied to " \o v.t)
       ELSE FFail(s, "unknown frame")
  ELSE FFail(s, "bad control")

FInit(Q, args) ==
  LET d == FDefBy(Q, "main")
  IN [ctl |-> FEval(d.body, FBindNames([i \in 1..Len(d.params) |-> d.params[i].name], [i \in 1..Len(d.params) |-> FIntV(args[i])])),
      stk |-> <<>>, out |-> <<>>, status |-> "run", why |-> "", result |-> Zero, steps |-> 0]
=============================================================================
