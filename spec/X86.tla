-------------------------------- MODULE X86 --------------------------------
(***************************************************************************)
(* M4, x86-64: one step function per instruction form that axcut2x86_64's  *)
(* `Code` can print.  The program is the tokenised *printed text*.         *)
(*   P.code    sequence of instruction records (tok_x86.py)                *)
(*   P.labels  record label |-> index of its `label` pseudo-instruction    *)
(* State s: pc, regs, stk (sparse, key = offset from entry rsp), heap      *)
(* (sparse, key = block*8+slot), flags (operand pair of the last cmp),     *)
(* out (sequence of <<callee, word>>), status, why, result, steps, hi.     *)
(***************************************************************************)
EXTENDS Values

X86CalleeSaved == {"rbx", "rbp", "r12", "r13", "r14", "r15"}
X86CallerSaved == {"rax", "rcx", "rdx", "rsi", "rdi", "r8", "r9", "r10", "r11"}
X86ArgRegs == <<"rsi", "rdx", "rcx", "r8", "r9">>   \* rdi carries the heap pointer
X86Regs == X86CalleeSaved \cup X86CallerSaved \cup {"rsp"}

Fail(s, tag, why) == [s EXCEPT !.status = "fail", !.tag = tag, !.why = why]

X86Init(P, args, nblocks) ==
  LET regs0 == [r \in X86Regs |->
                  IF r = "rsp" THEN StkV(0)
                  ELSE IF r = "rdi" THEN PtrV(0, 0)
                  ELSE IF r \in X86CalleeSaved THEN InitV(r)
                  ELSE IF \E i \in 1..Len(args) : i <= 5 /\ X86ArgRegs[i] = r
                       THEN IntV(args[CHOOSE i \in 1..Len(args) : X86ArgRegs[i] = r])
                       ELSE UndefV]
  IN [pc |-> P.labels["asm_main"], regs |-> regs0,
      stk |-> (0 :> RetV), heap |-> <<>>, flags |-> NoFlagsV, nblocks |-> nblocks,
      out |-> <<>>, status |-> "run", tag |-> "", why |-> "", result |-> UndefV, steps |-> 0, hi |-> 0, strict |-> TRUE]

\* ---------- memory: resolve a memory operand to <<"heap", key>> / <<"stk", off>> / <<"bad", tag, why>>
\* displacement of a memory operand including an index register (an index must hold a small integer)
X86IndexOK(s, m) == m.index = "" \/ (s.regs[m.index].t = "int" /\ (SmallNat(s.regs[m.index].w) \/ SmallNeg(s.regs[m.index].w)))
X86Disp(s, m) == m.off + (IF m.index = "" THEN 0 ELSE SmallVal(s.regs[m.index].w) * m.scale)
X86Addr(s, m0) ==
  LET base == s.regs[m0.base]
      m == [base |-> m0.base, off |-> IF X86IndexOK(s, m0) THEN X86Disp(s, m0) ELSE 0]
  IN IF ~X86IndexOK(s, m0) THEN <<"bad", IF IsJunk(s.regs[m0.index]) THEN "undef" ELSE "mem", "memory access with an index register that holds no small integer">>
     ELSE IF base.t = "ptr" THEN
        LET o == base.o + m.off
        IN IF o < 0 \/ o >= BlockBytes \/ (o % 8) # 0 \/ base.b < 0 THEN <<"bad", "mem", "heap access outside the addressed block">>
           ELSE IF base.b >= s.nblocks THEN <<"exhausted">>
           ELSE <<"heap", HeapKey(base.b, o \div 8)>>
     ELSE IF base.t = "stk" THEN
        LET o == base.o + m.off
        \* any register may hold a stack address (frame pointer); the accessed word must lie in the routine's own frame,
        \* at or above the current stack pointer and below the return address
        IN IF s.regs["rsp"].t # "stk" THEN <<"bad", "mem", "stack access with a corrupt stack pointer">>
           ELSE IF o < 0 /\ ((-o) % 8) = 0 /\ o >= s.regs["rsp"].o THEN <<"stk", o>>
           ELSE <<"bad", "mem", "stack access outside the routine's own frame">>
     ELSE IF IsJunk(base) THEN <<"bad", "undef", "memory access through an undefined register">>
     ELSE <<"bad", "mem", "memory base is not a pointer (" \o base.t \o ")">>

X86Read(s, a) ==
  IF a.k = "reg" THEN s.regs[a.r]
  ELSE IF a.k = "reg32" THEN (IF s.regs[a.r].t = "int" THEN IntV(Low32(s.regs[a.r].w))
                              ELSE IF IsJunk(s.regs[a.r]) THEN s.regs[a.r]
                              ELSE [t |-> "bad", tag |-> "value", why |-> "32-bit read of a register that holds no integer"])
  ELSE IF a.k = "imm" THEN IntV(a.w)
  ELSE IF a.k = "rel" THEN CodeV(a.l, 0)
  ELSE IF a.k = "mem" THEN
       LET ad == X86Addr(s, a)
       IN IF ad[1] = "heap" THEN Sparse(s.heap, ad[2], ZeroV)
          ELSE IF ad[1] = "stk" THEN Sparse(s.stk, ad[2], UndefV)
          ELSE IF ad[1] = "exhausted" THEN [t |-> "exhausted"]
          ELSE [t |-> "bad", tag |-> ad[2], why |-> ad[3]]
  ELSE [t |-> "bad", tag |-> "tool", why |-> "operand kind " \o a.k]

\* v must not be bad
X86Write(s, a, v) ==
  IF a.k = "reg32" THEN (IF v.t = "int" /\ a.r # "rsp" THEN [s EXCEPT !.regs[a.r] = IntV(Low32(v.w))]      \* zero-extension
                         ELSE Fail(s, "value", "32-bit write of a non-integer"))
  ELSE IF a.k = "reg" THEN (IF a.r = "rsp" /\ v.t # "stk" THEN Fail(s, "mem", "stack pointer set to a non-stack value") ELSE [s EXCEPT !.regs[a.r] = v])
  ELSE IF a.k = "mem" THEN
       LET ad == X86Addr(s, a)
       IN IF ad[1] = "heap"
            THEN [s EXCEPT !.heap = (ad[2] :> v) @@ s.heap,
                           !.hi = IF (ad[2] \div SlotsPerBlock) > s.hi THEN ad[2] \div SlotsPerBlock ELSE s.hi]
          ELSE IF ad[1] = "stk" THEN [s EXCEPT !.stk = (ad[2] :> v) @@ s.stk]
          ELSE IF ad[1] = "exhausted" THEN [s EXCEPT !.status = "model-heap-exhausted"]
          ELSE Fail(s, ad[2], ad[3])
  ELSE Fail(s, "tool", "write to operand kind " \o a.k)

BadToFail(s, v) == IF v.t = "exhausted" THEN [s EXCEPT !.status = "model-heap-exhausted"]
                   ELSE IF "tag" \in DOMAIN v THEN Fail(s, v.tag, v.why)
                   ELSE Fail(s, IF v.why = "arithmetic on undefined value" THEN "undef" ELSE "value", v.why)
IsBadOrEx(v) == v.t \in {"bad", "exhausted"}

\* operand-form restrictions of the printed instruction (the assembler would reject the others)
X86Unencodable(i) ==
  LET n == Len(i.a) IN
  IF i.op = "mov" THEN
       (IF i.a[1].k = "mem" /\ i.a[2].k = "imm" /\ ~i.a[2].fits32 THEN "mov m64, imm64" ELSE
        IF i.a[1].k = "mem" /\ i.a[2].k = "mem" THEN "mov m64, m64" ELSE "")
  ELSE IF i.op \in {"add", "sub", "cmp"} THEN
       (IF i.a[2].k = "imm" /\ ~i.a[2].fits32 THEN i.op \o " with imm64" ELSE
        IF i.a[1].k = "mem" /\ i.a[2].k = "mem" THEN i.op \o " m64, m64" ELSE
        IF i.a[1].k = "imm" THEN i.op \o " with immediate destination" ELSE "")
  ELSE IF i.op = "imul" THEN
       (IF i.a[1].k # "reg" THEN "imul with memory destination" ELSE IF i.a[2].k = "imm" THEN "imul r64, imm (two-operand)" ELSE "")
  ELSE IF i.op = "idiv" THEN (IF i.a[1].k = "imm" THEN "idiv imm" ELSE "")
  ELSE IF i.op \in {"push", "pop"} THEN (IF i.a[1].k # "reg" THEN i.op \o " of non-register" ELSE "")
  ELSE IF i.op = "lea" THEN (IF i.a[1].k # "reg" \/ i.a[2].k \notin {"rel", "mem"} THEN "lea form" ELSE "")
  ELSE IF i.op \in {"test", "and", "or", "xor"} THEN
       (IF i.a[2].k = "imm" /\ ~i.a[2].fits32 THEN i.op \o " with imm64" ELSE
        IF i.a[1].k = "mem" /\ i.a[2].k = "mem" THEN i.op \o " m64, m64" ELSE
        IF i.a[1].k = "imm" THEN i.op \o " with immediate destination" ELSE "")
  ELSE IF i.op \in {"shl", "sal", "sar", "shr"} THEN
       (IF i.a[2].k # "imm" \/ ~SmallNat(i.a[2].w) \/ i.a[2].w[1] > 63 THEN i.op \o " with a count that is no immediate in 0..63" ELSE "")
  ELSE IF i.op \in {"inc", "dec", "neg", "not"} THEN (IF i.a[1].k = "imm" THEN i.op \o " of an immediate" ELSE "")
  ELSE ""

X86JumpBytes == 5
\* target of a jump to CodeV(l, o): o must step over whole fixed-size (5 byte, `jmp near`) entries
X86Resolve(P, v) ==
  IF v.t # "code" \/ v.l \notin DOMAIN P.labels THEN 0
  ELSE LET i == P.labels[v.l] k == v.o \div X86JumpBytes
       IN IF (v.o % X86JumpBytes) # 0 \/ v.o < 0 THEN 0
          ELSE IF k = 0 THEN i
          ELSE IF i + k + 1 <= Len(P.code) /\ \A j \in (i + 1)..(i + k + 1) : P.code[j].op = "jmpn"
               THEN i + k + 1 ELSE 0

Next1(s) == [s EXCEPT !.pc = s.pc + 1, !.steps = s.steps + 1]
ClearFlags(s) == [s EXCEPT !.flags = NoFlagsV]

\* C13 external-call model: alignment, argument, then destruction of everything the callee may clobber
X86ExternCall(s, name) ==
  LET sp == s.regs["rsp"]
  IN IF name \notin {"print_i64", "println_i64"} THEN Fail(s, "asm", "call of unknown external symbol " \o name)
     ELSE IF sp.t # "stk" \/ ((-sp.o) % 16) # 8 THEN Fail(s, "align", "stack pointer not 16-byte aligned at call")
     ELSE IF IsJunk(s.regs["rdi"]) THEN Fail(s, "undef", "undefined value passed to " \o name)
     ELSE IF s.regs["rdi"].t # "int" THEN Fail(s, "value", "non-integer passed to " \o name)
     ELSE [s EXCEPT !.out = Append(s.out, <<name, s.regs["rdi"].w>>),
                    !.regs = [r \in X86Regs |-> IF r \in X86CallerSaved THEN UndefV ELSE s.regs[r]],
                    !.flags = NoFlagsV,
                    !.stk = [o \in {k \in DOMAIN s.stk : k >= sp.o} |-> s.stk[o]],
                    !.pc = s.pc + 1, !.steps = s.steps + 1]

X86Ret(s) ==
  LET sp == s.regs["rsp"]
  IN IF sp.t # "stk" \/ sp.o # 0 THEN Fail(s, "cc", "ret with the stack pointer not at its entry value")
     ELSE IF Sparse(s.stk, 0, UndefV) # RetV THEN Fail(s, "cc", "return address overwritten")
     ELSE IF \E r \in X86CalleeSaved : s.regs[r] # InitV(r)
          THEN Fail(s, "cc", "callee-saved register " \o (CHOOSE r \in X86CalleeSaved : s.regs[r] # InitV(r)) \o " not restored")
     ELSE IF IsJunk(s.regs["rax"]) THEN Fail(s, "undef", "undefined value returned")
     ELSE IF s.regs["rax"].t # "int" THEN Fail(s, "value", "result is not an integer")
     ELSE [s EXCEPT !.status = "done", !.result = s.regs["rax"]]

X86Step(P, s) ==
  LET i == P.code[s.pc]
      op == i.op
  IN
  IF op \in {"label", "mark"} THEN Next1(s)
  ELSE IF s.strict /\ X86Unencodable(i) # "" THEN Fail(s, "encode", "unencodable instruction: " \o X86Unencodable(i))
  ELSE IF op = "lea" /\ i.a[2].k = "mem" THEN        \* address arithmetic, no memory access, flags untouched
     \* full 64-bit arithmetic: base + index * scale + displacement (`lea t, [a + b]` is an ordinary addition)
     LET b == s.regs[i.a[2].base]
         ix == IF i.a[2].index = "" THEN IntV(Zero) ELSE s.regs[i.a[2].index]
         sc == IF ix.t = "int" THEN IntV(Mul(ix.w, FromNat(i.a[2].scale))) ELSE IF i.a[2].scale = 1 THEN ix ELSE BadV("lea scales a register that holds no integer")
         v == AddV(AddV(b, sc), IntV(FromInt(i.a[2].off)))
     IN IF IsJunk(b) \/ IsJunk(ix) THEN Fail(s, "undef", "lea from an undefined register") ELSE IF IsBad(sc) THEN BadToFail(s, sc)
        ELSE IF IsBad(v) THEN BadToFail(s, v) ELSE Next1(X86Write(s, i.a[1], v))
  ELSE IF op \in {"mov", "lea"} THEN
     LET v == X86Read(s, i.a[2])
     IN IF IsBadOrEx(v) THEN BadToFail(s, v) ELSE Next1(X86Write(s, i.a[1], v))
  ELSE IF op = "nop" THEN Next1(s)
  ELSE IF op = "xchg" THEN          \* both operands read before either is written; flags untouched
     LET x == X86Read(s, i.a[1]) y == X86Read(s, i.a[2])
     IN IF IsBadOrEx(x) THEN BadToFail(s, x) ELSE IF IsBadOrEx(y) THEN BadToFail(s, y)
        ELSE LET s1 == X86Write(s, i.a[1], y) IN IF s1.status # "run" THEN s1 ELSE Next1(X86Write(s1, i.a[2], x))
  ELSE IF op \in {"add", "sub", "imul"} THEN
     LET x == X86Read(s, i.a[1]) y == X86Read(s, i.a[2])
         r == IF op = "add" THEN AddV(x, y) ELSE IF op = "sub" THEN SubV(x, y) ELSE MulV(x, y)
         ints == x.t = "int" /\ y.t = "int" /\ i.a[1].k # "reg32"
         \* flags: `sub` sets them like `cmp`; `add` like a comparison of the sum with zero unless the signed sum overflows
         fl == IF ints /\ op = "sub" THEN <<x, y>>
               ELSE IF ints /\ op = "add" /\ ~(IsNeg(x.w) = IsNeg(y.w) /\ IsNeg(r.w) # IsNeg(x.w)) THEN <<r, ZeroV>>
               ELSE NoFlagsV
     IN IF IsBadOrEx(x) THEN BadToFail(s, x) ELSE IF IsBadOrEx(y) THEN BadToFail(s, y)
        ELSE IF IsJunk(x) \/ IsJunk(y) THEN Fail(s, "undef", op \o " on an undefined value")
        ELSE IF IsBad(r) THEN BadToFail(s, r)
        ELSE Next1([X86Write(s, i.a[1], r) EXCEPT !.flags = fl])
  ELSE IF op \in {"xor", "and", "or", "test"} THEN
     LET x == X86Read(s, i.a[1]) y == X86Read(s, i.a[2]) same == i.a[1] = i.a[2] /\ i.a[1].k \in {"reg", "reg32"}
     IN IF op = "xor" /\ same THEN Next1([X86Write(s, i.a[1], ZeroV) EXCEPT !.flags = <<ZeroV, ZeroV>>])     \* zeroing idiom: any content
        ELSE IF IsBadOrEx(x) THEN BadToFail(s, x) ELSE IF IsBadOrEx(y) THEN BadToFail(s, y)
        ELSE IF IsJunk(x) \/ IsJunk(y) THEN Fail(s, "undef", op \o " on an undefined value")
        \* `and rsp, -16`: aligning the stack pointer downwards (the entry stack pointer is 8 modulo 16: the caller's call pushed 8 bytes)
        ELSE IF op = "and" /\ x.t = "stk" /\ y = IntV(FromInt(-16)) THEN
             Next1(ClearFlags(X86Write(s, i.a[1], StkV(x.o - ((x.o + 8) % 16)))))
        ELSE IF op = "test" /\ same THEN Next1([s EXCEPT !.flags = <<x, ZeroV>>])                               \* also for a pointer: null test
        ELSE IF op \in {"and", "or"} /\ same THEN Next1([s EXCEPT !.flags = <<x, ZeroV>>])
        ELSE IF x.t # "int" \/ y.t # "int" THEN Fail(s, "value", op \o " on non-integers")
        ELSE LET r == IntV(IF op = "xor" THEN BitXor(x.w, y.w) ELSE IF op = "or" THEN BitOr(x.w, y.w) ELSE BitAnd(x.w, y.w))
             IN IF op = "test" THEN Next1([s EXCEPT !.flags = <<r, ZeroV>>])
                ELSE Next1([X86Write(s, i.a[1], r) EXCEPT !.flags = IF i.a[1].k = "reg32" THEN NoFlagsV ELSE <<r, ZeroV>>])
  ELSE IF op \in {"inc", "dec", "neg", "not"} THEN
     LET x == X86Read(s, i.a[1])
         r == IF op = "inc" THEN AddV(x, IntV(One)) ELSE IF op = "dec" THEN SubV(x, IntV(One))
              ELSE IF x.t # "int" THEN BadV(op \o " of a non-integer") ELSE IF op = "neg" THEN IntV(Neg(x.w)) ELSE IntV(Not(x.w))
         fl == IF op = "not" THEN s.flags
               ELSE IF x.t # "int" \/ i.a[1].k = "reg32" THEN NoFlagsV
               ELSE IF op = "neg" THEN <<ZeroV, x>>
               ELSE IF (op = "inc" /\ x.w = MaxW) \/ (op = "dec" /\ x.w = MinW) THEN NoFlagsV ELSE <<r, ZeroV>>
     IN IF IsBadOrEx(x) THEN BadToFail(s, x)
        ELSE IF IsJunk(x) THEN Fail(s, "undef", op \o " on an undefined value")
        ELSE IF IsBad(r) THEN BadToFail(s, r)
        ELSE Next1([X86Write(s, i.a[1], r) EXCEPT !.flags = fl])
  ELSE IF op \in {"shl", "sal", "sar", "shr"} THEN
     LET x == X86Read(s, i.a[1]) k == i.a[2].w[1]
     IN IF IsBadOrEx(x) THEN BadToFail(s, x)
        ELSE IF IsJunk(x) THEN Fail(s, "undef", op \o " on an undefined value")
        ELSE IF x.t # "int" \/ i.a[2].k # "imm" \/ i.a[1].k = "reg32" THEN Fail(s, "value", op \o " on a non-integer, by a non-immediate count or on a 32-bit register")
        ELSE Next1(ClearFlags(X86Write(s, i.a[1], IntV(IF op \in {"shl", "sal"} THEN Shl(x.w, k) ELSE IF op = "sar" THEN Sar(x.w, k) ELSE Shr(x.w, k)))))
  ELSE IF op = "cqo" THEN
     IF IsJunk(s.regs["rax"]) THEN Fail(s, "undef", "cqo on an undefined value")
     ELSE IF s.regs["rax"].t # "int" THEN Fail(s, "value", "cqo on non-integer")
     ELSE Next1([s EXCEPT !.regs["rdx"] = IntV(IF IsNeg(s.regs["rax"].w) THEN MinusOne ELSE Zero)])
  ELSE IF op = "idiv" THEN
     LET d == X86Read(s, i.a[1]) n == s.regs["rax"] hi == s.regs["rdx"]
     IN IF IsBadOrEx(d) THEN BadToFail(s, d)
        ELSE IF IsJunk(d) \/ IsJunk(n) \/ IsJunk(hi) THEN Fail(s, "undef", "idiv on an undefined value")
        ELSE IF d.t # "int" \/ n.t # "int" \/ hi.t # "int" THEN Fail(s, "value", "idiv on non-integer")
        ELSE IF i.a[1].k = "reg" /\ i.a[1].r \in {"rax", "rdx"} /\ FALSE THEN s
        ELSE IF hi.w # (IF IsNeg(n.w) THEN MinusOne ELSE Zero) THEN Fail(s, "value", "idiv: rdx is not the sign extension of rax")
        ELSE IF ~DivDefined(n.w, d.w) THEN [s EXCEPT !.status = "source-undefined"]
        ELSE Next1(ClearFlags([s EXCEPT !.regs["rax"] = IntV(SDiv(n.w, d.w)), !.regs["rdx"] = IntV(SRem(n.w, d.w))]))
  ELSE IF op = "cmp" THEN
     LET x == X86Read(s, i.a[1]) y == X86Read(s, i.a[2])
     IN IF IsBadOrEx(x) THEN BadToFail(s, x) ELSE IF IsBadOrEx(y) THEN BadToFail(s, y)
        ELSE Next1([s EXCEPT !.flags = <<x, y>>])
  ELSE IF op \in {"js", "jns"} /\ s.flags[2] # ZeroV THEN
     Fail(s, "tool", "sign-flag jump after a comparison with a non-zero operand is not modelled")
  ELSE IF op \in {"je", "jne", "jl", "jle", "jg", "jge", "jz", "jnz", "js", "jns"} THEN
     LET cc == CASE op \in {"je", "jz"} -> "eq" [] op \in {"jne", "jnz"} -> "ne" [] op \in {"jl", "js"} -> "lt" [] op = "jle" -> "le" [] op = "jg" -> "gt" [] OTHER -> "ge"
         c == Cond(cc, s.flags)
     IN IF c = "bad" THEN
             (IF IsJunk(s.flags[1]) \/ IsJunk(s.flags[2]) THEN Fail(s, "undef", "conditional jump depends on undefined flags or an undefined operand")
              ELSE Fail(s, "value", "conditional jump on incomparable operands (" \o s.flags[1].t \o ", " \o s.flags[2].t \o ")"))
        ELSE IF i.a[1].l \notin DOMAIN P.labels THEN Fail(s, "asm", "undefined label " \o i.a[1].l)
        ELSE IF c = "T" THEN [s EXCEPT !.pc = P.labels[i.a[1].l], !.steps = s.steps + 1] ELSE Next1(s)
  ELSE IF op \in {"jmp", "jmpn"} /\ i.a[1].k # "lab" /\ X86Read(s, i.a[1]) = RetV THEN
     \* `pop r; jmp r`: a return whose address was popped by hand (the stack pointer is then 8 above its entry value)
     LET sp == s.regs["rsp"]
     IN IF sp.t # "stk" \/ sp.o # 8 THEN Fail(s, "cc", "return with the stack pointer not at its entry value")
        ELSE X86Ret([s EXCEPT !.regs["rsp"] = StkV(0), !.stk = (0 :> RetV) @@ s.stk])
  ELSE IF op \in {"jmp", "jmpn"} THEN
     LET tgt == IF i.a[1].k = "lab" THEN CodeV(i.a[1].l, 0) ELSE X86Read(s, i.a[1])
         j == X86Resolve(P, tgt)
     IN IF IsJunk(tgt) THEN Fail(s, "undef", "jump through an undefined register")
        ELSE IF j = 0 THEN Fail(s, "jump", "jump target is not a label or a whole number of table entries past one")
        ELSE [s EXCEPT !.pc = j, !.steps = s.steps + 1]
  ELSE IF op = "push" THEN
     LET sp == s.regs["rsp"]
     IN IF sp.t # "stk" THEN Fail(s, "mem", "push with a corrupt stack pointer")
        ELSE Next1([s EXCEPT !.regs["rsp"] = StkV(sp.o - 8), !.stk = ((sp.o - 8) :> s.regs[i.a[1].r]) @@ s.stk])
  ELSE IF op = "pop" THEN
     LET sp == s.regs["rsp"]
     IN IF sp.t # "stk" \/ sp.o > 0 THEN Fail(s, "mem", "pop beyond the routine's own frame")     \* at 0 it pops the return address
        ELSE Next1([s EXCEPT !.regs = [s.regs EXCEPT ![i.a[1].r] = Sparse(s.stk, sp.o, UndefV), !["rsp"] = StkV(sp.o + 8)],
                             !.stk = [o \in {k \in DOMAIN s.stk : k > sp.o} |-> s.stk[o]]])
  ELSE IF op = "call" THEN
     \* direct, or through a register / memory word that holds the address of the external function
     IF i.a[1].k = "lab" THEN X86ExternCall(s, i.a[1].l)
     ELSE LET v == X86Read(s, i.a[1])
          IN IF IsBadOrEx(v) THEN BadToFail(s, v)
             ELSE IF IsJunk(v) THEN Fail(s, "undef", "call through an undefined register")
             ELSE IF v.t = "code" /\ v.o = 0 THEN X86ExternCall(s, v.l)
             ELSE Fail(s, "value", "call through a value that is no function address")
  ELSE IF op = "leave" THEN      \* mov rsp, rbp; pop rbp
     LET fp == s.regs["rbp"]
     IN IF fp.t # "stk" \/ fp.o >= 0 \/ s.regs["rsp"].t # "stk" \/ fp.o < s.regs["rsp"].o THEN Fail(s, "mem", "leave with a frame pointer outside the routine's own frame")
        ELSE Next1([s EXCEPT !.regs = [s.regs EXCEPT !["rbp"] = Sparse(s.stk, fp.o, UndefV), !["rsp"] = StkV(fp.o + 8)],
                             !.stk = [o \in {k \in DOMAIN s.stk : k > fp.o} |-> s.stk[o]]])
  ELSE IF op = "ret" THEN X86Ret(s)
  ELSE Fail(s, "tool", "unknown instruction " \o op)
=============================================================================
