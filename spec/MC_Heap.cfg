SPECIFICATION Spec
CONSTANTS
  MaxVars = 3
  MaxBlocks = 7
  Arities = {0, 1, 2, 4}
  FootK = 1
  MaxLevel = 4
  EmitFrom = 1
  EmitOneIn = 1
INVARIANT HeapConsistent
INVARIANT Footprint
CONSTRAINT Bounded
VIEW StateView
CHECK_DEADLOCK FALSE
