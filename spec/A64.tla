-------------------------------- MODULE A64 --------------------------------
(***************************************************************************)
(* M4, AArch64: one step function per instruction form that                *)
(* axcut2aarch64's `Code` can print (GNU syntax, tok_a64.py).              *)
(*   P.code, P.labels as for X86; every instruction is 4 bytes:            *)
(*   P.addr[i]   number of real instructions before code index i           *)
(*   P.ataddr[k] code index of the k-th real instruction (1-based)         *)
(* AAPCS64: X0-X7 arguments/result, X0-X17 caller-saved, X19-X28 + X29     *)
(* (frame) callee-saved, X30 link register, SP 16-byte aligned whenever it *)
(* is used as a base address and at every call.                            *)
(***************************************************************************)
EXTENDS Values

A64CalleeSaved == {"X19", "X20", "X21", "X22", "X23", "X24", "X25", "X26", "X27", "X28", "X29"}
A64CallerSaved == {"X0", "X1", "X2", "X3", "X4", "X5", "X6", "X7", "X8", "X9", "X10", "X11", "X12", "X13", "X14",
                   "X15", "X16", "X17"}
A64ArgRegs == <<"X1", "X2", "X3", "X4", "X5", "X6", "X7">>   \* X0 carries the heap pointer
A64Regs == A64CalleeSaved \cup A64CallerSaved \cup {"X18", "X30", "SP"}

AFailS(s, tag, why) == [s EXCEPT !.status = "fail", !.tag = tag, !.why = why]

A64Init(P, args, nblocks) ==
  LET regs0 == [r \in A64Regs |->
                  IF r = "SP" THEN StkV(0)
                  ELSE IF r = "X0" THEN PtrV(0, 0)
                  ELSE IF r = "X30" THEN RetV
                  ELSE IF r \in A64CalleeSaved THEN InitV(r)
                  ELSE IF \E i \in 1..Len(args) : i <= 7 /\ A64ArgRegs[i] = r
                       THEN IntV(args[CHOOSE i \in 1..Len(args) : A64ArgRegs[i] = r])
                       ELSE UndefV]
  IN [pc |-> P.labels["asm_main"], regs |-> regs0,
      stk |-> <<>>, heap |-> <<>>, flags |-> NoFlagsV, nblocks |-> nblocks,
      out |-> <<>>, status |-> "run", tag |-> "", why |-> "", result |-> UndefV, steps |-> 0, hi |-> 0, strict |-> TRUE]

A64Get(s, r) == IF r = "XZR" THEN ZeroV ELSE s.regs[r]
A64Set(s, r, v) ==
  IF r = "XZR" THEN s
  ELSE IF r = "SP" /\ v.t # "stk" THEN AFailS(s, "mem", "stack pointer set to a non-stack value")
  ELSE [s EXCEPT !.regs[r] = v]

\* address of [base, off]: <<"heap", key>> / <<"stk", off>> / <<"bad", tag, why>> / <<"exhausted">>
A64Addr(s, base, off) ==
  LET b == A64Get(s, base)
  IN IF b.t = "ptr" THEN
        LET o == b.o + off
        IN IF o < 0 \/ o >= BlockBytes \/ (o % 8) # 0 \/ b.b < 0 THEN <<"bad", "mem", "heap access outside the addressed block">>
           ELSE IF b.b >= s.nblocks THEN <<"exhausted">>
           ELSE <<"heap", HeapKey(b.b, o \div 8)>>
     ELSE IF b.t = "stk" THEN
        LET o == b.o + off
        \* any register may hold a stack address (frame pointer); the alignment rule is the architecture's rule for SP as base
        IN IF A64Get(s, "SP").t # "stk" THEN <<"bad", "mem", "stack access with a corrupt stack pointer">>
           ELSE IF base = "SP" /\ (b.o % 16) # 0 THEN <<"bad", "align", "SP not 16-byte aligned at a stack access">>
           ELSE IF o < 0 /\ ((-o) % 8) = 0 /\ o >= A64Get(s, "SP").o THEN <<"stk", o>>
           ELSE <<"bad", "mem", "stack access outside the routine's own frame">>
     ELSE IF IsJunk(b) THEN <<"bad", "undef", "memory access through an undefined register">>
     ELSE <<"bad", "mem", "memory base is not a pointer (" \o b.t \o ")">>

A64Load(s, ad) == IF ad[1] = "heap" THEN Sparse(s.heap, ad[2], ZeroV) ELSE Sparse(s.stk, ad[2], UndefV)
A64Store(s, ad, v) ==
  IF ad[1] = "heap"
    THEN [s EXCEPT !.heap = (ad[2] :> v) @@ s.heap,
                   !.hi = IF (ad[2] \div SlotsPerBlock) > s.hi THEN ad[2] \div SlotsPerBlock ELSE s.hi]
  ELSE [s EXCEPT !.stk = (ad[2] :> v) @@ s.stk]
A64AddrFail(s, ad) == IF ad[1] = "exhausted" THEN [s EXCEPT !.status = "model-heap-exhausted"] ELSE AFailS(s, ad[2], ad[3])

A64ValFail(s, v) == AFailS(s, IF v.why = "arithmetic on undefined value" THEN "undef" ELSE "value", v.why)

\* operand-form restrictions of the printed instruction
\* (the ranges are those the assembler accepts for the printed form - checked against LLVM's AArch64 assembler by C14:
\* ADD/SUB/CMP take 0..4095 or a multiple of 4096 up to 4095*4096, of either sign (the assembler swaps ADD/SUB, CMP/CMN);
\* LDR/STR take a scaled unsigned offset or, as LDUR/STUR, any offset in -256..255)
AddImmOK(a) == LET m == IF a.s < 0 THEN 0 - a.s ELSE a.s IN ~a.big /\ (m <= 4095 \/ ((m % 4096) = 0 /\ m <= 16773120))
A64Unencodable(i) ==
  IF i.op \in {"ADD", "SUB", "ADDS", "SUBS"} /\ Len(i.a) >= 3 /\ i.a[3].k = "imm" THEN (IF ~AddImmOK(i.a[3]) THEN i.op \o " immediate is no 12-bit value (optionally shifted by 12)" ELSE "")
  ELSE IF i.op = "CMP" /\ i.a[2].k = "imm" THEN (IF ~AddImmOK(i.a[2]) THEN "CMP immediate is no 12-bit value (optionally shifted by 12)" ELSE "")
  ELSE IF i.op \in {"LDR", "STR"} THEN
       (IF ~((i.a[2].off >= -256 /\ i.a[2].off <= 255) \/ (i.a[2].off >= 0 /\ i.a[2].off <= 32760 /\ (i.a[2].off % 8) = 0))
        THEN i.op \o " offset outside 0..32760 or not a multiple of 8" ELSE "")
  ELSE IF i.op \in {"LDP", "STP"} THEN
       (LET o == IF Len(i.a) = 3 THEN i.a[3].off
                 ELSE IF i.op = "LDP" THEN (IF Len(i.a) >= 4 /\ ~i.a[4].big THEN i.a[4].s ELSE 100000) ELSE i.a[3].off
        IN IF o < -512 \/ o > 504 \/ (o % 8) # 0 THEN i.op \o " offset outside -512..504 or not a multiple of 8" ELSE "")
  ELSE IF i.op \in {"MOVZ", "MOVN", "MOVK"} THEN
       (IF i.a[2].big \/ i.a[2].s < 0 \/ i.a[2].s > 65535 THEN i.op \o " immediate outside 0..65535"
        ELSE IF i.a[3].n \notin {0, 16, 32, 48} THEN i.op \o " shift not in {0,16,32,48}" ELSE "")
  ELSE ""

\* target of a jump to CodeV(l, o): every instruction is 4 bytes
A64Resolve(P, v) ==
  IF v.t # "code" \/ v.l \notin DOMAIN P.labels THEN 0
  ELSE IF v.o < 0 \/ (v.o % 4) # 0 THEN 0
  ELSE LET k == P.addr[P.labels[v.l]] + (v.o \div 4) + 1
       IN IF v.o = 0 THEN P.labels[v.l] ELSE IF k <= Len(P.ataddr) THEN P.ataddr[k] ELSE 0

ANext1(s) == [s EXCEPT !.pc = s.pc + 1, !.steps = s.steps + 1]
AClearFlags(s) == s   \* only CMP (SUBS) sets flags on this subset; ADD/SUB/MUL leave them alone

\* halfword insertion / MOVZ / MOVN on limbs
HwIdx(sh) == (sh \div 16) + 1
MovzW(imm16, sh) == [k \in 1..4 |-> IF k = HwIdx(sh) THEN imm16 ELSE 0]
MovnW(imm16, sh) == [k \in 1..4 |-> IF k = HwIdx(sh) THEN 65535 - imm16 ELSE 65535]
MovkW(w, imm16, sh) == [k \in 1..4 |-> IF k = HwIdx(sh) THEN imm16 ELSE w[k]]

A64ExternCall(s, name) ==
  LET sp == s.regs["SP"]
  IN IF name \notin {"print_i64", "println_i64"} THEN AFailS(s, "asm", "call of unknown external symbol " \o name)
     ELSE IF sp.t # "stk" \/ (sp.o % 16) # 0 THEN AFailS(s, "align", "SP not 16-byte aligned at call")
     ELSE IF IsJunk(s.regs["X0"]) THEN AFailS(s, "undef", "undefined value passed to " \o name)
     ELSE IF s.regs["X0"].t # "int" THEN AFailS(s, "value", "non-integer passed to " \o name)
     ELSE [s EXCEPT !.out = Append(s.out, <<name, s.regs["X0"].w>>),
                    !.regs = [r \in A64Regs |-> IF r \in A64CallerSaved \cup {"X30", "X18"} THEN UndefV ELSE s.regs[r]],
                    !.flags = NoFlagsV,
                    !.stk = [o \in {k \in DOMAIN s.stk : k >= sp.o} |-> s.stk[o]],
                    !.pc = s.pc + 1, !.steps = s.steps + 1]

A64Ret(s) ==
  LET sp == s.regs["SP"]
  IN IF s.regs["X30"] # RetV THEN AFailS(s, "cc", "RET with a link register that does not hold the caller's return address")
     ELSE IF sp.t # "stk" \/ sp.o # 0 THEN AFailS(s, "cc", "RET with the stack pointer not at its entry value")
     ELSE IF \E r \in A64CalleeSaved : s.regs[r] # InitV(r)
          THEN AFailS(s, "cc", "callee-saved register " \o (CHOOSE r \in A64CalleeSaved : s.regs[r] # InitV(r)) \o " not restored")
     ELSE IF IsJunk(s.regs["X0"]) THEN AFailS(s, "undef", "undefined value returned")
     ELSE IF s.regs["X0"].t # "int" THEN AFailS(s, "value", "result is not an integer")
     ELSE [s EXCEPT !.status = "done", !.result = s.regs["X0"]]

A64Step(P, s) ==
  LET i == P.code[s.pc]
      op == i.op
  IN
  IF op \in {"label", "mark"} THEN ANext1(s)
  ELSE IF s.strict /\ A64Unencodable(i) # "" THEN AFailS(s, "encode", "unencodable instruction: " \o A64Unencodable(i))
  ELSE IF op \in {"ADD", "SUB", "MUL", "SDIV"} THEN
     LET x == A64Get(s, i.a[2].r)
         y0 == IF i.a[3].k = "imm" THEN IntV(i.a[3].w) ELSE A64Get(s, i.a[3].r)
         \* shifted-register form `ADD Xd, Xn, Xm, LSL k`
         y == IF Len(i.a) >= 4 /\ i.a[4].k = "lsl" /\ y0.t = "int" THEN IntV(Shl(y0.w, i.a[4].n)) ELSE y0
     IN IF Len(i.a) >= 4 /\ (i.a[4].k # "lsl" \/ (y0.t # "int" /\ ~IsJunk(y0))) THEN AFailS(s, "value", op \o " with a shifted operand that is no integer")
        ELSE IF IsJunk(x) \/ IsJunk(y) THEN AFailS(s, "undef", op \o " on an undefined value")
        ELSE IF op = "SDIV" THEN
             (IF x.t # "int" \/ y.t # "int" THEN AFailS(s, "value", "SDIV on non-integer")
              ELSE IF ~DivDefined(x.w, y.w) THEN [s EXCEPT !.status = "source-undefined"]
              ELSE ANext1(A64Set(s, i.a[1].r, IntV(SDiv(x.w, y.w)))))
        ELSE LET r == IF op = "ADD" THEN AddV(x, y) ELSE IF op = "SUB" THEN SubV(x, y) ELSE MulV(x, y)
             IN IF IsBad(r) THEN A64ValFail(s, r) ELSE ANext1(A64Set(s, i.a[1].r, r))
  ELSE IF op = "MADD" THEN   \* Xd = Xa + Xn * Xm
     LET n == A64Get(s, i.a[2].r) m == A64Get(s, i.a[3].r) a == A64Get(s, i.a[4].r)
     IN IF IsJunk(n) \/ IsJunk(m) \/ IsJunk(a) THEN AFailS(s, "undef", "MADD on an undefined value")
        ELSE IF n.t # "int" \/ m.t # "int" \/ a.t # "int" THEN AFailS(s, "value", "MADD on non-integer")
        ELSE ANext1(A64Set(s, i.a[1].r, IntV(Add(a.w, Mul(n.w, m.w)))))
  ELSE IF op = "MSUB" THEN   \* Xd = Xa - Xn * Xm
     LET n == A64Get(s, i.a[2].r) m == A64Get(s, i.a[3].r) a == A64Get(s, i.a[4].r)
     IN IF IsJunk(n) \/ IsJunk(m) \/ IsJunk(a) THEN AFailS(s, "undef", "MSUB on an undefined value")
        ELSE IF n.t # "int" \/ m.t # "int" \/ a.t # "int" THEN AFailS(s, "value", "MSUB on non-integer")
        ELSE ANext1(A64Set(s, i.a[1].r, IntV(Sub(a.w, Mul(n.w, m.w)))))
  ELSE IF op = "MOV" THEN ANext1(A64Set(s, i.a[1].r, A64Get(s, i.a[2].r)))
  ELSE IF op = "MOVZ" THEN ANext1(A64Set(s, i.a[1].r, IntV(MovzW(i.a[2].s, i.a[3].n))))
  ELSE IF op = "MOVN" THEN ANext1(A64Set(s, i.a[1].r, IntV(MovnW(i.a[2].s, i.a[3].n))))
  ELSE IF op = "MOVK" THEN
     LET x == A64Get(s, i.a[1].r)
     IN IF IsJunk(x) THEN AFailS(s, "undef", "MOVK into an undefined register")
        ELSE IF x.t # "int" THEN AFailS(s, "value", "MOVK into a non-integer")
        ELSE ANext1(A64Set(s, i.a[1].r, IntV(MovkW(x.w, i.a[2].s, i.a[3].n))))
  ELSE IF op = "ADR" THEN ANext1(A64Set(s, i.a[1].r, CodeV(i.a[2].l, 0)))
  ELSE IF op = "LDR" THEN
     LET ad == A64Addr(s, i.a[2].base, i.a[2].off)
     IN IF ad[1] \in {"bad", "exhausted"} THEN A64AddrFail(s, ad) ELSE ANext1(A64Set(s, i.a[1].r, A64Load(s, ad)))
  ELSE IF op = "STR" THEN
     LET ad == A64Addr(s, i.a[2].base, i.a[2].off)
     IN IF ad[1] \in {"bad", "exhausted"} THEN A64AddrFail(s, ad) ELSE ANext1(A64Store(s, ad, A64Get(s, i.a[1].r)))
  ELSE IF op \in {"STP", "LDP"} /\ ~i.a[3].pre /\ Len(i.a) = 3 THEN   \* signed-offset form: a pair of words at [base + off], [base + off + 8]
     LET a1 == A64Addr(s, i.a[3].base, i.a[3].off) a2 == A64Addr(s, i.a[3].base, i.a[3].off + 8)
     IN IF a1[1] \in {"bad", "exhausted"} THEN A64AddrFail(s, a1)
        ELSE IF a2[1] \in {"bad", "exhausted"} THEN A64AddrFail(s, a2)
        ELSE IF op = "STP" THEN ANext1(A64Store(A64Store(s, a1, A64Get(s, i.a[1].r)), a2, A64Get(s, i.a[2].r)))
        ELSE ANext1(A64Set(A64Set(s, i.a[1].r, A64Load(s, a1)), i.a[2].r, A64Load(s, a2)))
  ELSE IF op \in {"TBZ", "TBNZ"} THEN       \* test one bit and branch (no flags)
     LET x == A64Get(s, i.a[1].r)
     IN IF IsJunk(x) THEN AFailS(s, "undef", "conditional branch on an undefined register")
        ELSE IF x.t # "int" \/ i.a[2].k # "imm" \/ ~SmallNat(i.a[2].w) \/ i.a[2].w[1] > 63 THEN AFailS(s, "value", op \o " on a non-integer or with a bit number outside 0..63")
        ELSE IF i.a[3].l \notin DOMAIN P.labels THEN AFailS(s, "asm", "undefined label " \o i.a[3].l)
        ELSE IF (Bit(x.w, i.a[2].w[1]) = 1) = (op = "TBNZ") THEN [s EXCEPT !.pc = P.labels[i.a[3].l], !.steps = s.steps + 1] ELSE ANext1(s)
  ELSE IF op = "STP" THEN   \* pre-index: SP := SP + off; store pair at SP, SP + 8
     LET sp == s.regs["SP"]
     IN IF i.a[3].base # "SP" \/ ~i.a[3].pre THEN AFailS(s, "tool", "STP form not modelled")
        ELSE IF sp.t # "stk" THEN AFailS(s, "mem", "STP with a corrupt stack pointer")
        ELSE LET n == sp.o + i.a[3].off
             IN IF (n % 16) # 0 THEN AFailS(s, "align", "SP not 16-byte aligned at a stack access")
                ELSE IF n >= 0 \/ i.a[3].off > -16 THEN AFailS(s, "mem", "STP outside the routine's own frame")
                ELSE ANext1([s EXCEPT !.regs["SP"] = StkV(n),
                                      !.stk = (n :> A64Get(s, i.a[1].r)) @@ ((n + 8) :> A64Get(s, i.a[2].r)) @@ s.stk])
  ELSE IF op = "LDP" THEN   \* post-index: load pair from SP, SP + 8; SP := SP + imm
     LET sp == s.regs["SP"]
     IN IF i.a[3].base # "SP" \/ i.a[3].pre \/ i.a[3].hasoff \/ Len(i.a) # 4 THEN AFailS(s, "tool", "LDP form not modelled")
        ELSE IF sp.t # "stk" THEN AFailS(s, "mem", "LDP with a corrupt stack pointer")
        ELSE IF (sp.o % 16) # 0 THEN AFailS(s, "align", "SP not 16-byte aligned at a stack access")
        ELSE IF sp.o + 16 > 0 THEN AFailS(s, "mem", "LDP beyond the routine's own frame")
        ELSE LET s1 == A64Set(s, i.a[1].r, Sparse(s.stk, sp.o, UndefV))
                 s2 == A64Set(s1, i.a[2].r, Sparse(s.stk, sp.o + 8, UndefV))
             IN ANext1([s2 EXCEPT !.regs["SP"] = StkV(sp.o + i.a[4].s),
                                  !.stk = [o \in {k \in DOMAIN s.stk : k >= sp.o + i.a[4].s} |-> s.stk[o]]])
  ELSE IF op = "CMP" THEN
     LET x == A64Get(s, i.a[1].r)
         y == IF i.a[2].k = "imm" THEN IntV(i.a[2].w) ELSE A64Get(s, i.a[2].r)
     IN ANext1([s EXCEPT !.flags = <<x, y>>])
  ELSE IF op \in {"BEQ", "BNE", "BLT", "BLE", "BGT", "BGE"} THEN
     LET cc == CASE op = "BEQ" -> "eq" [] op = "BNE" -> "ne" [] op = "BLT" -> "lt" [] op = "BLE" -> "le" [] op = "BGT" -> "gt" [] OTHER -> "ge"
         c == Cond(cc, s.flags)
     IN IF c = "bad" THEN
             (IF IsJunk(s.flags[1]) \/ IsJunk(s.flags[2]) THEN AFailS(s, "undef", "conditional branch depends on undefined flags or an undefined operand")
              ELSE AFailS(s, "value", "conditional branch on incomparable operands (" \o s.flags[1].t \o ", " \o s.flags[2].t \o ")"))
        ELSE IF i.a[1].l \notin DOMAIN P.labels THEN AFailS(s, "asm", "undefined label " \o i.a[1].l)
        ELSE IF c = "T" THEN [s EXCEPT !.pc = P.labels[i.a[1].l], !.steps = s.steps + 1] ELSE ANext1(s)
  ELSE IF op \in {"SUBS", "ADDS"} THEN       \* arithmetic that also sets the flags: SUBS like CMP; ADDS like a comparison of the sum with zero
     LET x == A64Get(s, i.a[2].r)                  \* (flags left undefined when the signed sum overflows)
         y == IF i.a[3].k = "imm" THEN IntV(i.a[3].w) ELSE A64Get(s, i.a[3].r)
         r == IF op = "SUBS" THEN SubV(x, y) ELSE AddV(x, y)
         fl == IF x.t = "int" /\ y.t = "int" THEN
                  (IF op = "SUBS" THEN <<x, y>>
                   ELSE IF IsNeg(x.w) = IsNeg(y.w) /\ IsNeg(r.w) # IsNeg(x.w) THEN NoFlagsV ELSE <<r, ZeroV>>)
               ELSE NoFlagsV
     IN IF IsJunk(x) \/ IsJunk(y) THEN AFailS(s, "undef", op \o " on an undefined value")
        ELSE IF IsBad(r) THEN A64ValFail(s, r) ELSE ANext1([A64Set(s, i.a[1].r, r) EXCEPT !.flags = fl])
  ELSE IF op \in {"BMI", "BPL"} THEN         \* N flag: sign of the (wrapped) difference of the compared operands
     LET x == s.flags[1] y == s.flags[2]
     IN IF IsJunk(x) \/ IsJunk(y) THEN AFailS(s, "undef", "conditional branch depends on undefined flags or an undefined operand")
        ELSE IF x.t # "int" \/ y.t # "int" THEN AFailS(s, "value", "conditional branch on incomparable operands (" \o x.t \o ", " \o y.t \o ")")
        ELSE IF i.a[1].l \notin DOMAIN P.labels THEN AFailS(s, "asm", "undefined label " \o i.a[1].l)
        ELSE IF IsNeg(Sub(x.w, y.w)) = (op = "BMI") THEN [s EXCEPT !.pc = P.labels[i.a[1].l], !.steps = s.steps + 1] ELSE ANext1(s)
  ELSE IF op \in {"CBZ", "CBNZ"} THEN        \* compare with zero and branch, flags untouched
     LET x == A64Get(s, i.a[1].r) c == CmpEq(x, ZeroV)
     IN IF c = "bad" THEN
             (IF IsJunk(x) THEN AFailS(s, "undef", "conditional branch on an undefined register")
              ELSE AFailS(s, "value", "conditional branch on a value incomparable with zero (" \o x.t \o ")"))
        ELSE IF i.a[2].l \notin DOMAIN P.labels THEN AFailS(s, "asm", "undefined label " \o i.a[2].l)
        ELSE IF (c = "T") = (op = "CBZ") THEN [s EXCEPT !.pc = P.labels[i.a[2].l], !.steps = s.steps + 1] ELSE ANext1(s)
  ELSE IF op \in {"NEG", "MVN", "AND", "ORR", "EOR", "LSL", "LSR", "ASR"} THEN   \* forms another instruction selection may use
     LET x == A64Get(s, i.a[2].r)
         y == IF op \in {"NEG", "MVN"} THEN IntV(Zero) ELSE IF i.a[3].k = "imm" THEN IntV(i.a[3].w) ELSE A64Get(s, i.a[3].r)
     IN IF IsJunk(x) \/ IsJunk(y) THEN AFailS(s, "undef", op \o " on an undefined value")
        ELSE IF x.t # "int" \/ y.t # "int" THEN AFailS(s, "value", op \o " on non-integers")
        ELSE IF op \in {"LSL", "LSR", "ASR"} /\ (~SmallNat(y.w) \/ y.w[1] > 63) THEN AFailS(s, "value", op \o " by a count outside 0..63")
        ELSE ANext1(A64Set(s, i.a[1].r, IntV(
               IF op = "NEG" THEN Neg(x.w) ELSE IF op = "MVN" THEN Not(x.w) ELSE IF op = "AND" THEN BitAnd(x.w, y.w)
               ELSE IF op = "ORR" THEN BitOr(x.w, y.w) ELSE IF op = "EOR" THEN BitXor(x.w, y.w)
               ELSE IF op = "LSL" THEN Shl(x.w, y.w[1]) ELSE IF op = "LSR" THEN Shr(x.w, y.w[1]) ELSE Sar(x.w, y.w[1]))))
  ELSE IF op = "NOP" THEN ANext1(s)
  ELSE IF op = "B" THEN
     IF i.a[1].l \notin DOMAIN P.labels THEN AFailS(s, "asm", "undefined label " \o i.a[1].l)
     ELSE [s EXCEPT !.pc = P.labels[i.a[1].l], !.steps = s.steps + 1]
  ELSE IF op = "BR" THEN
     LET tgt == A64Get(s, i.a[1].r) j == A64Resolve(P, tgt)
     IN IF IsJunk(tgt) THEN AFailS(s, "undef", "branch through an undefined register")
        ELSE IF j = 0 THEN AFailS(s, "jump", "branch target is not a label plus a whole number of instructions")
        ELSE [s EXCEPT !.pc = j, !.steps = s.steps + 1]
  ELSE IF op = "BL" THEN A64ExternCall(s, i.a[1].l)
  ELSE IF op = "BLR" THEN        \* call through a register that holds the address of the external function
     LET v == A64Get(s, i.a[1].r)
     IN IF IsJunk(v) THEN AFailS(s, "undef", "call through an undefined register")
        ELSE IF v.t = "code" /\ v.o = 0 THEN A64ExternCall(s, v.l)
        ELSE AFailS(s, "value", "call through a value that is no function address")
  ELSE IF op = "RET" THEN A64Ret(s)
  ELSE AFailS(s, "tool", "unknown instruction " \o op)
=============================================================================
