----------------------------- MODULE AxCutHeap -----------------------------
(***************************************************************************)
(* M3: the design of the block heap (axcut2backend/src/memory.rs and the   *)
(* three */src/memory.rs), under a nondeterministic mutator.               *)
(*  - fixed-size blocks: header (reference count - 1, or free-list link),  *)
(*    three fields of two words; an object with more than three fields is  *)
(*    a chain of blocks linked through the first word of the last field;   *)
(*    an object without fields is the null pointer                         *)
(*  - `hp`: immediately reusable ("linear") free list, never empty;        *)
(*    `fp`: deferred ("lazy") free list, ending at the bump frontier       *)
(*  - AcquireBlock: (1) next of the linear list, else (2) head of the      *)
(*    deferred list, whose children are erased now, else (3) bump          *)
(*  - ReleaseBlock (consumed object with count 0), EraseBlock (dropped     *)
(*    reference: decrement, or push on the deferred list, children         *)
(*    untouched), ShareBlock, StoreFields, LoadFields(Release | Share)     *)
(* Mutator statements (one action each, i.e. one statement boundary):      *)
(*    Let(k, picks)  build an object with k fields from integers and       *)
(*                   moved variables;  Dup(i);  Drop(i);  Switch(i)        *)
(* Checked in every reachable state: HeapInv (C09) and the footprint       *)
(* bound frontier <= peak reachable + K (C10).                             *)
(***************************************************************************)
EXTENDS HeapInv

CONSTANTS MaxVars, MaxBlocks, Arities, FootK
VARIABLES heap, hp, fp, hi, vars, peak, last, hv, hist

H == [heap |-> heap, hp |-> hp, fp |-> fp, hi |-> hi]

Set(h, b, slot, v) == [h EXCEPT !.heap = (HeapKey(b, slot) :> v) @@ h.heap, !.hi = IF b > h.hi THEN b ELSE h.hi]
Get(h, b, slot) == Sparse(h.heap, HeapKey(b, slot), ZeroV)
HdrOf(h, p) == Get(h, p.b, 0)
FstSlot(i) == 2 + 2 * i
SndSlot(i) == 3 + 2 * i

\* ---- reference counting primitives
EraseBlock(h, p) ==
  IF p = ZeroV THEN h
  ELSE IF HdrOf(h, p) = ZeroV THEN [Set(h, p.b, 0, h.fp) EXCEPT !.fp = p]      \* last reference: push on the deferred list
  ELSE Set(h, p.b, 0, IntV(Sub(HdrOf(h, p).w, One)))
ShareBlock(h, p, n) == IF p = ZeroV THEN h ELSE Set(h, p.b, 0, IntV(Add(HdrOf(h, p).w, FromNat(n))))
ReleaseBlock(h, p) == [Set(h, p.b, 0, h.hp) EXCEPT !.hp = p]

\* ---- AcquireBlock: <<heap state, pointer to the acquired block>>
Acquire(h) ==
  LET new == h.hp nxt == HdrOf(h, new) IN
  IF nxt # ZeroV THEN <<[Set(h, new.b, 0, ZeroV) EXCEPT !.hp = nxt], new>>                 \* (1) linear list
  ELSE LET cand == h.fp fnext == HdrOf(h, cand) IN
       IF fnext = ZeroV THEN <<[h EXCEPT !.hp = cand, !.fp = PtrV(cand.b + 1, 0)], new>>   \* (3) bump
       ELSE LET h1 == [Set(h, cand.b, 0, ZeroV) EXCEPT !.hp = cand, !.fp = fnext]           \* (2) deferred list
                h2 == EraseBlock(h1, Get(h1, cand.b, FstSlot(0)))
                h3 == EraseBlock(h2, Get(h2, cand.b, FstSlot(1)))
                h4 == EraseBlock(h3, Get(h3, cand.b, FstSlot(2)))
            IN <<h4, new>>

\* ---- values of the mutator: integers and object references with their number of fields
IntVal == [t |-> "int"]
ObjVal(p, k) == [t |-> "obj", p |-> p, k |-> k]
FstOf(v) == IF v.t = "int" THEN ZeroV ELSE v.p
SndOf(v) == IF v.t = "int" THEN IntV(FromNat(99)) ELSE IntV(FromNat(v.k))   \* the "tag" word: here the arity

\* store values vs (at most `free` many) into the block at hp, right-aligned in fields 0..free-1; zero the unused first slots
StoreValues(h, vs, free) ==
  LET b == h.hp.b m == Len(vs)
      RECURSIVE Put(_, _)
      Put(hh, j) == IF j > free THEN hh
                    ELSE IF j <= free - m THEN Put(Set(hh, b, FstSlot(j - 1), ZeroV), j + 1)
                    ELSE LET v == vs[j - (free - m)]
                         IN Put(Set(Set(hh, b, FstSlot(j - 1), FstOf(v)), b, SndSlot(j - 1), SndOf(v)), j + 1)
  IN Put(h, 1)

HMin(a, b) == IF a < b THEN a ELSE b
\* StoreFields: last block first (3 values), then blocks of 2 values + link; returns <<heap state, object pointer>>
RECURSIVE StoreOther(_, _, _)
StoreOther(h, rest, link) ==
  IF rest = <<>> THEN <<h, link>>
  ELSE LET m == HMin(2, Len(rest))
           h1 == Set(h, h.hp.b, FstSlot(2), link)
           h2 == StoreValues(h1, SubSeq(rest, Len(rest) - m + 1, Len(rest)), 2)
           a == Acquire(h2)
       IN StoreOther(a[1], SubSeq(rest, 1, Len(rest) - m), a[2])
StoreFields(h, vs) ==
  IF vs = <<>> THEN <<h, ZeroV>>
  ELSE LET m == HMin(3, Len(vs))
           h1 == StoreValues(h, SubSeq(vs, Len(vs) - m + 1, Len(vs)), 3)
           a == Acquire(h1)
       IN StoreOther(a[1], SubSeq(vs, 1, Len(vs) - m), a[2])

\* LoadFields of an object with k fields at pointer p: <<heap state, values in order>>
ReadField(h, b, i) == IF Get(h, b, FstSlot(i)).t = "ptr" THEN ObjVal(Get(h, b, FstSlot(i)), SmallVal(Get(h, b, SndSlot(i)).w))
                      ELSE IF Get(h, b, SndSlot(i)) = IntV(FromNat(99)) THEN IntVal
                      ELSE ObjVal(ZeroV, SmallVal(Get(h, b, SndSlot(i)).w))      \* object without fields: null pointer
RECURSIVE LoadChain(_, _, _, _, _)
LoadChain(h, p, k, release, acc) ==
  \* head blocks hold 2 values + link while more than 3 remain, the last block holds the remaining (<= 3)
  IF k <= 3 THEN
     LET vals == [j \in 1..k |-> ReadField(h, p.b, 3 - k + j - 1)]
         h1 == IF release THEN ReleaseBlock(h, p) ELSE h
     IN <<h1, acc \o vals>>
  ELSE LET here == IF (k - 3) % 2 = 0 THEN 2 ELSE 1       \* the head block may hold a single value
           vals == [j \in 1..here |-> ReadField(h, p.b, 2 - here + j - 1)]
           link == Get(h, p.b, FstSlot(2))
           h1 == IF release THEN ReleaseBlock(h, p) ELSE h
       IN LoadChain(h1, link, k - here, release, acc \o vals)
RECURSIVE ShareAll(_, _, _)
ShareAll(h, vals, j) == IF j > Len(vals) THEN h ELSE ShareAll(IF vals[j].t = "obj" THEN ShareBlock(h, vals[j].p, 1) ELSE h, vals, j + 1)
LoadFields(h, p, k) ==
  IF k = 0 THEN <<h, <<>> >>
  ELSE IF HdrOf(h, p) = ZeroV THEN LoadChain(h, p, k, TRUE, <<>>)
  ELSE LET h1 == Set(h, p.b, 0, IntV(Sub(HdrOf(h, p).w, One)))
           r == LoadChain(h1, p, k, FALSE, <<>>)
       IN <<ShareAll(r[1], r[2], 1), r[2]>>

\* ---- the mutator
Objs == {i \in 1..Len(vars) : vars[i].t = "obj"}
Roots(vs) == [i \in {j \in 1..Len(vs) : vs[j].t = "obj"} |-> vs[i].p]
HRemove(s, S) == LET keep == {i \in 1..Len(s) : i \notin S}
                    RECURSIVE Build(_, _)
                    Build(i, acc) == IF i > Len(s) THEN acc ELSE Build(i + 1, IF i \in keep THEN Append(acc, s[i]) ELSE acc)
                IN Build(1, <<>>)
Commit(h, vs, what) ==
  LET v == HeapView(h.heap, h.hp, h.fp, Roots(vs), h.hi) IN
  /\ heap' = h.heap /\ hp' = h.hp /\ fp' = h.fp /\ hi' = h.hi /\ vars' = vs
  /\ peak' = IF v.reach > peak THEN v.reach ELSE peak
  /\ last' = what[1]
  /\ hv' = v
  /\ hist' = Append(hist, what)

Init == /\ heap = <<>> /\ hp = PtrV(0, 0) /\ fp = PtrV(1, 0) /\ hi = 0 /\ vars = <<>> /\ peak = 0 /\ last = "init"
        /\ hv = HeapView(<<>>, PtrV(0, 0), PtrV(1, 0), <<>>, 0)
        /\ hist = <<>>

\* Let: an object with k fields; field j is an integer or moves variable pick[j] (each variable at most once)
\* the moved variables (any subset that fits) occupy either the first or the last fields, the others are integers
HSetToSeq(S) == LET RECURSIVE Go(_, _)
                   Go(T, acc) == IF T = {} THEN acc ELSE LET x == CHOOSE y \in T : \A z \in T : y <= z IN Go(T \ {x}, Append(acc, x))
               IN Go(S, <<>>)
Let(k) ==
  /\ Len(vars) < MaxVars \/ k > 0
  /\ \E moved \in SUBSET (1..Len(vars)), atEnd \in BOOLEAN :
       /\ Cardinality(moved) <= k
       /\ Len(vars) - Cardinality(moved) < MaxVars
       /\ (moved = {} => atEnd)
       /\ LET ms == HSetToSeq(moved) n == Len(ms)
              vs == [j \in 1..k |-> IF atEnd THEN (IF j > k - n THEN vars[ms[j - (k - n)]] ELSE IntVal)
                                       ELSE (IF j <= n THEN vars[ms[j]] ELSE IntVal)]
              r == StoreFields(H, vs)
          IN Commit(r[1], Append(HRemove(vars, moved), ObjVal(r[2], k)), <<"let", k, ms, IF atEnd THEN 1 ELSE 0>>)
Dup(i) == /\ Len(vars) < MaxVars /\ vars[i].t = "obj"
          /\ Commit(ShareBlock(H, vars[i].p, 1), Append(vars, vars[i]), <<"dup", i, <<>>, 0>>)
Drop(i) == Commit(IF vars[i].t = "obj" THEN EraseBlock(H, vars[i].p) ELSE H, HRemove(vars, {i}), <<"drop", i, <<>>, 0>>)
Switch(i) == /\ vars[i].t = "obj"
             /\ LET r == LoadFields(H, vars[i].p, vars[i].k)
                IN /\ Len(vars) - 1 + Len(r[2]) <= MaxVars + 3
                   /\ Commit(r[1], HRemove(vars, {i}) \o r[2], <<"switch", i, <<>>, 0>>)
Next == \/ \E k \in Arities : Let(k)
        \/ \E i \in 1..Len(vars) : Dup(i) \/ Drop(i) \/ Switch(i)
vars_ == <<heap, hp, fp, hi, vars, peak, last, hv, hist>>
Spec == Init /\ [][Next]_vars_

\* ---- what is checked
View == hv
HeapConsistent == View.why = ""
Footprint == View.F <= peak + FootK
CONSTANT MaxLevel
Bounded == View.F <= MaxBlocks /\ TLCGet("level") <= MaxLevel     \* state constraint of the finite model
\* States are identified modulo the history variable `last` and modulo the stale field words of blocks on the linear free
\* list (they are never read: a reused block has all its first slots rewritten before it becomes reachable again).
LiveHeap == LET lin == View.linearSet
            IN [k \in {x \in DOMAIN heap : (x \div SlotsPerBlock) \notin lin \/ (x % SlotsPerBlock) = 0} |-> heap[k]]
StateView == <<LiveHeap, hp, fp, vars, peak>>

=============================================================================
