-------------------------------- MODULE RV64 --------------------------------
(***************************************************************************)
(* M4, RISC-V: the pseudo-assembly printed by axcut2rv64, read as C08      *)
(* states: 64-bit loads and stores (LW/SW move whole words), started at    *)
(* the first label with the heap and free registers initialised as on the  *)
(* other backends, main's parameters in the second temporaries of their    *)
(* positions, finished on reaching the `cleanup` label with the result in  *)
(* the first return register.  No stack, no calls (the backend is          *)
(* print-free).  Jump-table entries are JAL instructions (4 bytes).        *)
(***************************************************************************)
EXTENDS Values

RVRegs == {"X0", "X1", "X2", "X3", "X4", "X5", "X6", "X7", "X8", "X9", "X10", "X11", "X12", "X13", "X14", "X15",
           "X16", "X17", "X18", "X19", "X20", "X21", "X22", "X23", "X24", "X25", "X26", "X27", "X28", "X29", "X30", "X31"}

RFail(s, tag, why) == [s EXCEPT !.status = "fail", !.tag = tag, !.why = why]

RVInit(P, args, nblocks, cfg) ==
  LET paramReg(i) == cfg.temps[i].snd.r
      regs0 == [r \in RVRegs |->
                  IF r = "X0" THEN ZeroV
                  ELSE IF r = cfg.heap.r THEN PtrV(0, 0)
                  ELSE IF r = cfg.free.r THEN PtrV(1, 0)
                  ELSE IF \E i \in 1..Len(args) : paramReg(i) = r
                       THEN IntV(args[CHOOSE i \in 1..Len(args) : paramReg(i) = r])
                       ELSE UndefV]
  IN [pc |-> P.entry, regs |-> regs0, ret1 |-> cfg.return1.r,
      stk |-> <<>>, heap |-> <<>>, flags |-> NoFlagsV, nblocks |-> nblocks,
      out |-> <<>>, status |-> "run", tag |-> "", why |-> "", result |-> UndefV, steps |-> 0, hi |-> 0, strict |-> TRUE]

RVGet(s, r) == IF r = "X0" THEN ZeroV ELSE s.regs[r]
RVSet(s, r, v) == IF r = "X0" THEN s ELSE [s EXCEPT !.regs[r] = v]
RVal(s, a) == IF a.k = "imm" THEN IntV(a.w) ELSE RVGet(s, a.r)

RVAddr(s, base, off) ==
  LET b == RVGet(s, base)
  IN IF b.t = "ptr" THEN
        LET o == b.o + off
        IN IF o < 0 \/ o >= BlockBytes \/ (o % 8) # 0 \/ b.b < 0 THEN <<"bad", "mem", "heap access outside the addressed block">>
           ELSE IF b.b >= s.nblocks THEN <<"exhausted">>
           ELSE <<"heap", HeapKey(b.b, o \div 8)>>
     ELSE IF IsJunk(b) THEN <<"bad", "undef", "memory access through an undefined register">>
     ELSE <<"bad", "mem", "memory base is not a heap pointer (" \o b.t \o ")">>
RVAddrFail(s, ad) == IF ad[1] = "exhausted" THEN [s EXCEPT !.status = "model-heap-exhausted"] ELSE RFail(s, ad[2], ad[3])

RVJumpBytes == 4
RVResolve(P, v) ==
  IF v.t # "code" \/ v.l \notin DOMAIN P.labels THEN 0
  ELSE LET i == P.labels[v.l] k == v.o \div RVJumpBytes
       IN IF (v.o % RVJumpBytes) # 0 \/ v.o < 0 THEN 0
          ELSE IF k = 0 THEN i
          ELSE IF i + k + 1 <= Len(P.code) /\ \A j \in (i + 1)..(i + k + 1) : P.code[j].op = "JAL"
               THEN i + k + 1 ELSE 0

RNext1(s) == [s EXCEPT !.pc = s.pc + 1, !.steps = s.steps + 1]
RGoto(P, s, l) ==
  IF l \notin DOMAIN P.labels THEN RFail(s, "asm", "undefined label " \o l)
  ELSE [s EXCEPT !.pc = P.labels[l], !.steps = s.steps + 1]

RVStep(P, s) ==
  LET i == P.code[s.pc]
      op == i.op
  IN
  IF op = "label" /\ i.l = "cleanup" THEN
     LET r == RVGet(s, s.ret1)
     IN IF IsJunk(r) THEN RFail(s, "undef", "undefined value returned")
        ELSE IF r.t # "int" THEN RFail(s, "value", "result is not an integer")
        ELSE [s EXCEPT !.status = "done", !.result = r]
  ELSE IF op \in {"label", "mark"} THEN RNext1(s)
  ELSE IF op \in {"ADD", "SUB", "MUL", "DIV", "REM"} THEN
     LET x == RVGet(s, i.a[2].r) y == RVal(s, i.a[3])
     IN IF IsJunk(x) \/ IsJunk(y) THEN RFail(s, "undef", op \o " on an undefined value")
        ELSE IF op \in {"DIV", "REM"} THEN
             (IF x.t # "int" \/ y.t # "int" THEN RFail(s, "value", op \o " on non-integer")
              ELSE IF ~DivDefined(x.w, y.w) THEN [s EXCEPT !.status = "source-undefined"]
              ELSE RNext1(RVSet(s, i.a[1].r, IntV(IF op = "DIV" THEN SDiv(x.w, y.w) ELSE SRem(x.w, y.w)))))
        ELSE LET r == IF op = "ADD" THEN AddV(x, y) ELSE IF op = "SUB" THEN SubV(x, y) ELSE MulV(x, y)
             IN IF IsBad(r) THEN RFail(s, IF r.why = "arithmetic on undefined value" THEN "undef" ELSE "value", r.why)
                ELSE RNext1(RVSet(s, i.a[1].r, r))
  ELSE IF op \in {"SLLI", "SRLI", "SRAI", "AND", "OR", "XOR"} THEN    \* forms another instruction selection may use
     LET x == RVGet(s, i.a[2].r) y == RVal(s, i.a[3])
     IN IF IsJunk(x) \/ IsJunk(y) THEN RFail(s, "undef", op \o " on an undefined value")
        ELSE IF x.t # "int" \/ y.t # "int" THEN RFail(s, "value", op \o " on non-integers")
        ELSE IF op \in {"SLLI", "SRLI", "SRAI"} /\ (~SmallNat(y.w) \/ y.w[1] > 63) THEN RFail(s, "value", op \o " by a count outside 0..63")
        ELSE RNext1(RVSet(s, i.a[1].r, IntV(
               IF op = "SLLI" THEN Shl(x.w, y.w[1]) ELSE IF op = "SRLI" THEN Shr(x.w, y.w[1]) ELSE IF op = "SRAI" THEN Sar(x.w, y.w[1])
               ELSE IF op = "AND" THEN BitAnd(x.w, y.w) ELSE IF op = "OR" THEN BitOr(x.w, y.w) ELSE BitXor(x.w, y.w))))
  ELSE IF op = "LI" THEN RNext1(RVSet(s, i.a[1].r, IntV(i.a[2].w)))
  ELSE IF op = "LA" THEN RNext1(RVSet(s, i.a[1].r, CodeV(i.a[2].l, 0)))
  ELSE IF op = "MV" THEN RNext1(RVSet(s, i.a[1].r, RVGet(s, i.a[2].r)))
  ELSE IF op = "LW" THEN
     LET ad == RVAddr(s, i.a[3].r, i.a[2].s)
     IN IF i.a[2].big THEN RFail(s, "encode", "load offset out of range")
        ELSE IF ad[1] \in {"bad", "exhausted"} THEN RVAddrFail(s, ad)
        ELSE RNext1(RVSet(s, i.a[1].r, Sparse(s.heap, ad[2], ZeroV)))
  ELSE IF op = "SW" THEN
     LET ad == RVAddr(s, i.a[3].r, i.a[2].s)
     IN IF i.a[2].big THEN RFail(s, "encode", "store offset out of range")
        ELSE IF ad[1] \in {"bad", "exhausted"} THEN RVAddrFail(s, ad)
        ELSE RNext1([s EXCEPT !.heap = (ad[2] :> RVGet(s, i.a[1].r)) @@ s.heap,
                              !.hi = IF (ad[2] \div SlotsPerBlock) > s.hi THEN ad[2] \div SlotsPerBlock ELSE s.hi])
  ELSE IF op \in {"BEQ", "BNE", "BLT", "BLE", "BGT", "BGE"} THEN
     LET cc == CASE op = "BEQ" -> "eq" [] op = "BNE" -> "ne" [] op = "BLT" -> "lt" [] op = "BLE" -> "le" [] op = "BGT" -> "gt" [] OTHER -> "ge"
         x == RVGet(s, i.a[1].r) y == RVGet(s, i.a[2].r)
         c == Cond(cc, <<x, y>>)
     IN IF c = "bad" THEN
             (IF IsJunk(x) \/ IsJunk(y) THEN RFail(s, "undef", "conditional branch on an undefined register")
              ELSE RFail(s, "value", "conditional branch on incomparable operands (" \o x.t \o ", " \o y.t \o ")"))
        ELSE IF c = "T" THEN RGoto(P, s, i.a[3].l) ELSE RNext1(s)
  ELSE IF op = "JAL" THEN
     IF i.a[1].r # "X0" THEN RFail(s, "tool", "JAL with a link register is not modelled")
     ELSE RGoto(P, s, i.a[2].l)
  ELSE IF op = "JALR" THEN
     LET tgt == AddV(RVGet(s, i.a[2].r), IntV(i.a[3].w)) j == RVResolve(P, tgt)
     IN IF i.a[1].r # "X0" THEN RFail(s, "tool", "JALR with a link register is not modelled")
        ELSE IF IsJunk(RVGet(s, i.a[2].r)) THEN RFail(s, "undef", "jump through an undefined register")
        ELSE IF j = 0 THEN RFail(s, "jump", "jump target is not a label or a whole number of table entries past one")
        ELSE [s EXCEPT !.pc = j, !.steps = s.steps + 1]
  ELSE RFail(s, "tool", "unknown instruction " \o op)
=============================================================================
