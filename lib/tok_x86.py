"""Tokenizer for the NASM-syntax text printed by axcut2x86_64."""
import re, sys, json
from tok_common import TokError, imm, split_ops, parse_mark

REGS = {"rsp", "rcx", "rbx", "rbp", "rax", "rdx", "rsi", "rdi",
        "r8", "r9", "r10", "r11", "r12", "r13", "r14", "r15"}
REGS32 = {"eax": "rax", "ecx": "rcx", "edx": "rdx", "ebx": "rbx", "ebp": "rbp", "esi": "rsi", "edi": "rdi", "esp": "rsp",
          **{"r%dd" % i: "r%d" % i for i in range(8, 16)}}
MEM = re.compile(r"^(qword\s+)?\[\s*(\w+)\s*(?:\+\s*(\w+)\s*(?:\*\s*([1248]))?\s*)?(?:([+-])\s*(\d+)\s*)?\]$")
REL = re.compile(r"^\[\s*rel\s+(\w+)\s*\]$")
IDENT = re.compile(r"^[A-Za-z_.$@?][\w.$@?]*$")

def _bad(s):
    raise TokError("memory base is not a register: " + s)


def operand(s):
    s = s.strip()
    if s.lower() in REGS or s.lower() in REGS32 or re.match(r"^(qword\s+)?\[", s, re.I):
        s = s.lower() if "rel" not in s.lower() else s      # registers and size keywords are case-insensitive, labels are not
    if s in REGS:
        return {"k": "reg", "r": s}
    if s in REGS32:
        return {"k": "reg32", "r": REGS32[s]}
    m = MEM.match(s)
    if m and m.group(3) and m.group(3).isdigit() and not m.group(4) and not m.group(5):
        m2 = re.match(r"^(qword\s+)?\[\s*(\w+)\s*\+\s*(\d+)\s*\]$", s)      # [base + disp]
        return {"k": "mem", "base": m2.group(2), "off": int(m2.group(3)), "index": "", "scale": 1} if m2.group(2) in REGS else _bad(s)
    if m:
        if m.group(2) not in REGS or (m.group(3) and m.group(3) not in REGS):
            raise TokError("memory base / index is not a register: " + s)
        off = int(m.group(6) or 0) * (-1 if m.group(5) == "-" else 1)
        return {"k": "mem", "base": m.group(2), "off": off, "index": m.group(3) or "", "scale": int(m.group(4) or 1)}
    m = REL.match(s)
    if m:
        return {"k": "rel", "l": m.group(1)}
    if re.match(r"^-?\d+$", s):
        return imm(s)
    if IDENT.match(s):
        return {"k": "lab", "l": s}
    raise TokError("operand? " + s)

KNOWN = {"add", "sub", "imul", "idiv", "cqo", "jmp", "lea", "mov", "cmp", "je", "jne", "jl", "jle",
         "jg", "jge", "push", "pop", "call", "ret",
         # forms the backend does not print today but a different instruction selection may: modelled in spec/X86.tla as well
         "test", "xor", "and", "or", "inc", "dec", "neg", "not", "shl", "sal", "sar", "shr", "nop", "jz", "jnz", "js", "jns", "xchg", "leave"}

def tokenize(text):
    """-> (instructions, directives) ; instructions: list of {"op", "a"} / label / mark records"""
    out, directives = [], []
    for ln, line in enumerate(text.split("\n"), 1):
        code, _, com = line.partition(";")
        code, com = code.strip(), com.strip()
        if not code:
            if com.startswith("@mark"):
                out.append(parse_mark(com))
            continue
        if re.match(r"^(section|extern|global)\b", code):
            directives.append(code)
            continue
        if code.endswith(":"):
            l = code[:-1].strip()
            if not IDENT.match(l):
                raise TokError("line %d: bad label %r" % (ln, line))
            out.append({"op": "label", "l": l})
            continue
        m = re.match(r"^(\w+)(\s+(.*))?$", code)
        if not m or m.group(1).lower() not in KNOWN:
            raise TokError("line %d: unknown instruction %r" % (ln, line))
        mn, rest = m.group(1).lower(), (m.group(3) or "")
        q = False
        if mn == "jmp" and rest.startswith("near "):
            out.append({"op": "jmpn", "a": [operand(rest[5:])]})
            continue
        if rest.startswith("qword "):
            q = True  # size keyword applies to the memory operand that follows
        ops = [operand(x) for x in split_ops(rest)] if rest else []
        out.append({"op": mn, "a": ops, "q": q})
    return out, directives

if __name__ == "__main__":
    ins, d = tokenize(open(sys.argv[1]).read())
    print(json.dumps(ins))
