"""G-Fun: type-directed random generator of whole, well-typed Fun programs (source text).
mode "seq": effects (print, exit, goto, calls of effectful functions) only in unambiguously sequenced positions
            (C01/C02: call, constructor, destructor, operator arguments and codata-typed bindings are pure);
mode "any": effects anywhere, including arguments (C03 and later stages).
Knobs: name pressure (few, reused, generated-looking names), literals of every magnitude, wide constructors."""
import random

BIG = [0, 1, 2, 3, 5, 7, 10, 100, 255, 256, 65535, 65536, 2147483647, 2147483648, 4294967295, 4294967296,
       140737488355328, 281474976710656, 9223372036854775807, 1311768467463790320, 281470681808895]

NAMES_PLAIN = ["x", "y", "z", "v", "w", "n", "m", "k", "acc", "t"]
NAMES_PRESSURE = ["x", "y", "x0", "a0", "x1", "a1", "a", "xs", "share_f_0", "lift_f_1", "lab1", "cleanup", "main_", "asm_main"]


class T:
    """a generated term: text plus the lowest grammar level it can stand at (1 = Term1 ... 4 = Term)"""

    def __init__(self, s, lvl, pure=True):
        self.s, self.lvl, self.pure = s, lvl, pure

    def at(self, lvl):
        return self.s if self.lvl <= lvl else "(" + self.s + ")"


class FunGen:
    def __init__(self, rng, mode="seq", pressure=False, budget=(6, 16), ndefs=(2, 5), max_main_params=3,
                 wide=False, polymorphic=True, labels=True, big_lits=True, twin=False, mark=False):
        self.r = rng
        self.mode = mode
        self.names = NAMES_PRESSURE if pressure else NAMES_PLAIN
        self.pressure = pressure
        self.budget_range = budget
        self.ndefs = ndefs
        self.max_main_params = max_main_params
        self.wide = wide
        self.polymorphic = polymorphic
        self.labels = labels
        self.big_lits = big_lits
        self.data = {}     # type name -> {"params": [..], "ctors": [(name, [(field, ty)])]}
        self.codata = {}   # type name -> {"params": [..], "dtors": [(name, [(arg, ty)], ret)]}
        self.insts = []    # concrete types usable in the program (strings)
        self.defs = []     # dict(name, params [(name, chi, ty)], ret, pure, loop)
        self.uid = 0
        self.twin = twin
        self.tw = 0
        self.sites = {}      # C15: mutation sites, id -> metadata (only filled when mark=True)
        self.mark = mark

    # ------------------------------------------------------------------ types
    def mk_types(self):
        r = self.r
        nd = r.choice([1, 2, 2, 3])
        for i in range(nd):
            name = "D%d" % i
            ctors = [("K%d_0" % i, [])]
            for j in range(1, r.choice([1, 2, 2, 3, 4])):
                nf = r.choice([1, 1, 2, 2, 3, 5, 7, 8] if self.wide else [1, 1, 2, 2, 3])
                fields = []
                for f in range(nf):
                    c = r.random()
                    ty = "i64" if c < 0.6 else ("D%d" % r.randrange(0, i + 1))
                    fields.append(("f%d" % f, ty))
                ctors.append(("K%d_%d" % (i, j), fields))
            self.data[name] = {"params": [], "ctors": ctors}
            self.insts.append(name)
        if self.polymorphic and r.random() < 0.7:
            self.data["L"] = {"params": ["A"], "ctors": [("LNil", []), ("LCons", [("hd", "A"), ("tl", "L[A]")])]}
            self.insts += ["L[i64]", "L[D0]"]
            if r.random() < 0.5:
                self.insts += ["L[L[i64]]"]        # a nested instance (type arguments that are applied types themselves)
        if self.polymorphic and r.random() < 0.4:
            self.data["P"] = {"params": ["A", "B"], "ctors": [("PTup", [("fst", "A"), ("snd", "B")])]}
            self.insts += ["P[i64, D0]"]
        nc = r.choice([0, 1, 1, 2])
        for i in range(nc):
            name = "C%d" % i
            dtors = []
            for j in range(r.choice([1, 1, 2, 3])):
                na = r.choice([0, 0, 1, 1, 2])
                args = [("u%d" % a, r.choice(["i64", "i64", "D0"])) for a in range(na)]
                ret = r.choice(["i64", "i64", "D0"] + (["C%d" % (i - 1)] if i > 0 else []))
                if r.random() < 0.45:   # a covariable parameter (argument names starting with k are consumers), mostly of the result type
                    args.append(("k%d" % len(args), ret if (ret in ("i64", "D0") and r.random() < 0.7) else "i64"))
                dtors.append(("d%d_%d" % (i, j), args, ret))
            self.codata[name] = {"params": [], "dtors": dtors}
            self.insts.append(name)
        if self.polymorphic and r.random() < 0.5:
            self.codata["F"] = {"params": ["A", "B"], "dtors": [("ap", [("x", "A")], "B")]}
            self.insts += ["F[i64, i64]", "F[i64, D0]"]
            if "L" in self.data and r.random() < 0.5:
                self.insts += ["L[F[i64, i64]]"]

    @staticmethod
    def split_ty(ty):
        if "[" not in ty:
            return ty, []
        base, rest = ty.split("[", 1)
        rest = rest[:-1]
        args, depth, cur = [], 0, ""
        for ch in rest:
            if ch == "[":
                depth += 1
            if ch == "]":
                depth -= 1
            if ch == "," and depth == 0:
                args.append(cur.strip())
                cur = ""
            else:
                cur += ch
        args.append(cur.strip())
        return base, args

    def subst(self, ty, params, args):
        base, targs = self.split_ty(ty)
        if base in params and not targs:
            return args[params.index(base)]
        if targs:
            return "%s[%s]" % (base, ", ".join(self.subst(t, params, args) for t in targs))
        return ty

    def is_data(self, ty):
        return self.split_ty(ty)[0] in self.data

    def is_codata(self, ty):
        return self.split_ty(ty)[0] in self.codata

    def ctors_of(self, ty):
        base, args = self.split_ty(ty)
        d = self.data[base]
        return [(c, [(f, self.subst(t, d["params"], args)) for f, t in fs]) for c, fs in d["ctors"]]

    def dtors_of(self, ty):
        base, args = self.split_ty(ty)
        d = self.codata[base]
        return [(n, [(a, self.subst(t, d["params"], args)) for a, t in as_], self.subst(rt, d["params"], args))
                for n, as_, rt in d["dtors"]]

    def targs(self, ty):
        base, args = self.split_ty(ty)
        return "[%s]" % ", ".join(args) if args else ""

    def decl_text(self):
        out = []
        for n, d in self.data.items():
            ps = "[%s]" % ", ".join(d["params"]) if d["params"] else ""
            cs = ", ".join(c + ("(%s)" % ", ".join("%s: %s" % f for f in fs) if fs else "") for c, fs in d["ctors"])
            out.append("data %s%s { %s }" % (n, ps, cs))
        for n, d in self.codata.items():
            ps = "[%s]" % ", ".join(d["params"]) if d["params"] else ""
            ds = ", ".join(dn + ("(%s)" % ", ".join(("%s :cns %s" if a[0].startswith("k") else "%s: %s") % a for a in as_) if as_ else "") + ": " + rt
                           for dn, as_, rt in d["dtors"])
            out.append("codata %s%s { %s }" % (n, ps, ds))
        return "\n".join(out)

    # ------------------------------------------------------------------ names and contexts
    def fresh_name(self, ctx):
        """-> (pressure name, real name).  Visibility (shadowing) is always decided on the pressure name, so that a
        program and its twin make the same random choices; in twin mode the real name is unique and looks generated."""
        if self.pressure:
            p = self.r.choice(self.names)      # may shadow
        else:
            self.uid += 1
            p = "%s%d" % (self.r.choice(["q", "r", "s", "u"]), self.uid)
        return p, self.real(p)

    def real(self, p):
        if not self.twin:
            return p
        self.tw += 1
        return "%s%d" % ("x" if self.tw % 2 else "a", 100 + self.tw)

    @staticmethod
    def visible(ctx):
        """right-most binding per name"""
        seen, out = set(), []
        for b in reversed(ctx):
            if b[0] not in seen:
                seen.add(b[0])
                out.append(b)
        return out

    def vars_of(self, ctx, ty):
        return [b for b in self.visible(ctx) if b[1] == "prd" and b[2] == ty]

    def covars_of(self, ctx, ty):
        return [b for b in self.visible(ctx) if b[1] == "cns" and b[2] == ty]

    # ------------------------------------------------------------------ mutation sites (C15)
    def site(self, kind, text, **meta):
        if not self.mark:
            return text
        i = len(self.sites) + 1
        meta["kind"] = kind
        meta["text"] = text
        self.sites[i] = meta
        return "\u27e6%d\u27e7%s\u27e6/%d\u27e7" % (i, text, i)

    # ------------------------------------------------------------------ literals
    def lit(self):
        r = self.r
        if self.big_lits and r.random() < 0.25:
            v = r.choice(BIG)
            return T(str(v) if r.random() < 0.6 or v == 0 else "-" + str(v), 1)
        v = r.randrange(-9, 10)
        return T(str(v), 1)

    # ------------------------------------------------------------------ terms
    def eff_ok(self, eff):
        return eff and True

    def gen(self, ty, ctx, budget, eff):
        """a term of type ty; eff: may this position perform effects? (always True in mode 'any')"""
        if self.mode == "any":
            eff = True
        r = self.r
        if budget <= 0:
            return self.leaf(ty, ctx)
        choices = []
        if ty == "i64":
            choices += ["lit", "var", "op", "op", "if", "let", "call", "case", "dtor"]
        elif self.is_data(ty):
            choices += ["ctor", "ctor", "var", "if", "let", "call", "case"]
        else:
            choices += ["new", "new", "var", "call", "let", "if"]
        if any(d["ret"] == ty and d["index"] > self.cur and (eff or d["pure"]) for d in self.defs):
            choices += ["call", "call", "call"]
        if eff:
            choices += ["print", "print"]
            if self.labels:
                choices += ["label", "goto"]
                if any(an.startswith("k") and t == ty for c in self.insts if self.is_codata(c) for _, as_, _ in self.dtors_of(c) for an, t in as_):
                    choices += ["handler", "handler"]
            if r.random() < 0.15:
                choices += ["exit"]
            if r.random() < 0.12:
                choices += ["letexit"]
        k = r.choice(choices)
        fn = getattr(self, "g_" + k)
        t = fn(ty, ctx, budget, eff)
        return t if t is not None else self.leaf(ty, ctx)

    def leaf(self, ty, ctx):
        vs = self.vars_of(ctx, ty)
        if vs and self.r.random() < 0.7:
            return T(self.site("var", self.r.choice(vs)[3]), 1)
        if ty == "i64":
            return self.lit()
        if self.is_data(ty):
            c, fs = self.ctors_of(ty)[0]
            if not fs:
                return T(c, 2)
            return T("%s(%s)" % (c, ", ".join(self.leaf(t, ctx).at(4) for _, t in fs)), 2)
        return self.g_new(ty, ctx, 0, False)

    def g_lit(self, ty, ctx, b, eff):
        return self.lit()

    def g_var(self, ty, ctx, b, eff):
        vs = self.vars_of(ctx, ty)
        return T(self.site("var", self.r.choice(vs)[3]), 1) if vs else None

    def g_op(self, ty, ctx, b, eff):
        op = self.r.choice(["+", "-", "*", "+", "-", "*", "/", "%"])
        a = self.gen("i64", ctx, b // 2, False)
        vs = self.vars_of(ctx, "i64")
        if op in "/%" and vs and self.r.random() < 0.4:
            # a variable as divisor (half of the time the first one of the context: backends keep it in a fixed register
            # that division instructions also use), guarded against zero so that the source semantics stays defined
            v = (vs[0] if self.r.random() < 0.5 else self.r.choice(vs))[3]
            return T("if %s == 0 { 0 } else { %s %s %s }" % (v, a.at(1), op, v), 3, a.pure)
        if op in "/%":
            d = T(str(self.r.choice([1, 2, 3, 7, 10, 255, 2147483648, 9223372036854775807])), 1)
            if self.r.random() < 0.3:
                d = T("-" + d.s, 1)
        else:
            d = self.gen("i64", ctx, b // 2, False)
        return T("%s %s %s" % (a.at(1), op, d.at(1)), 3, a.pure and d.pure)

    def cmp_text(self, ctx, b):
        r = self.r
        sort = r.choice(["==", "!=", "<", "<=", ">", ">="])
        a = self.gen("i64", ctx, b // 3, False)
        if r.random() < 0.35:   # zero-test forms, on either side
            if r.random() < 0.5:
                return "%s %s 0" % (a.at(1), sort), a.pure
            return "0 %s %s" % (sort, a.at(1)), a.pure
        c = self.gen("i64", ctx, b // 3, False)
        cs = c.at(1)
        if cs == "0":
            cs = "(0)"
        as_ = a.at(1)
        if as_ == "0":
            as_ = "(0)"
        return "%s %s %s" % (as_, sort, cs), a.pure and c.pure

    def g_if(self, ty, ctx, b, eff):
        cond, p = self.cmp_text(ctx, b)
        t = self.gen(ty, ctx, b // 2, eff)
        e = self.gen(ty, ctx, b // 2, eff)
        return T("if %s { %s } else { %s }" % (cond, t.at(4), e.at(4)), 3, p and t.pure and e.pure)

    def g_let(self, ty, ctx, b, eff):
        bty = self.r.choice(["i64", "i64"] + self.insts)
        pname, name = self.fresh_name(ctx)
        bound = self.gen(bty, ctx, b // 2, eff and not self.is_codata(bty))
        body = self.gen(ty, ctx + [(pname, "prd", bty, name)], b // 2, eff)
        simple = bound.lvl <= 2 and not bound.s.startswith("\u27e6") and (bound.s.lstrip("-").isdigit() or bound.s[:1].isupper() or bound.s.startswith("new "))
        return T("let %s: %s = %s; %s" % (name, self.site("letty", bty, simple=simple, other=("D0" if bty == "i64" else "i64")), bound.at(3), body.at(4)), 3,
                 bound.pure and body.pure)

    def args_for(self, sig, ctx, b, eff):
        """sig: list of (name, chi, ty); returns list of texts or None"""
        out, pure = [], True
        for p_ in sig:
            chi, ty = p_[1], p_[2]
            if chi == "cns":
                cs = self.covars_of(ctx, ty)
                if not cs:
                    return None, True
                out.append(self.r.choice(cs)[3])
            else:
                a = self.gen(ty, ctx, b // (len(sig) + 1), False)   # arguments are pure in mode seq
                pure = pure and a.pure
                out.append(a.at(4))
        return out, pure

    def g_call(self, ty, ctx, b, eff):
        cands = [d for d in self.defs if d["ret"] == ty and d["index"] > self.cur and (eff or d["pure"])]
        if not cands:
            return None
        d = self.r.choice(cands)
        sig = d["params"]
        if d["loop"]:
            args, pure = self.args_for(sig[1:], ctx, b, eff)
            if args is None:
                return None
            args = [str(self.r.choice([0, 1, 2, 3]))] + args
        else:
            args, pure = self.args_for(sig, ctx, b, eff)
            if args is None:
                return None
        sig_ = d["params"]
        return T("%s(%s)" % (self.site("callee", d["name"]), self.site("args", ", ".join(args), args=list(args), types=[p[2] for p in sig_],
                                                                   chis=[p[1] for p in sig_], prdvars=[b[3] for b in self.visible(ctx) if b[1] == "prd"],
                                                                   covars=[b[3] for b in self.visible(ctx) if b[1] == "cns"])), 1, pure and d["pure"])

    def g_ctor(self, ty, ctx, b, eff):
        c, fs = self.r.choice(self.ctors_of(ty))
        if not fs:
            return T(c, 2)
        args = [self.gen(t, ctx, b // (len(fs) + 1), False) for _, t in fs]
        return T("%s(%s)" % (c, self.site("args", ", ".join(a.at(4) for a in args), args=[a.at(4) for a in args], types=[t for _, t in fs],
                                          chis=["prd"] * len(fs), prdvars=[], covars=[])), 2, all(a.pure for a in args))

    def g_case(self, ty, ctx, b, eff):
        dts = [t for t in self.insts if self.is_data(t)]
        sty = self.r.choice(dts)
        scr = self.gen(sty, ctx, b // 3, eff)
        clauses, pure = [], scr.pure
        ctors = self.ctors_of(sty)
        self.r.shuffle(ctors)
        for c, fs in ctors:
            names, pnames, cctx = [], [], list(ctx)
            for _, t in fs:
                pn, n = self.fresh_name(cctx)
                while pn in pnames:     # binders of one clause must be distinct
                    self.uid += 1
                    pn = "b%d" % self.uid
                    n = self.real(pn)
                pnames.append(pn)
                names.append(n)
                cctx.append((pn, "prd", t, n))
            body = self.gen(ty, cctx, b // (len(ctors) + 1), eff)
            pure = pure and body.pure
            clauses.append("%s%s => %s" % (c, self.site("binders", "(%s)" % ", ".join(names) if names else "", names=list(names)), body.at(4)))
        return T("%s.case%s { %s }" % (scr.at(2), self.site("targs", self.targs(sty)) if self.targs(sty) else "",
                                       self.site("clauses", ", ".join(clauses), clauses=list(clauses), form="case")), 2, pure)

    def g_new(self, ty, ctx, b, eff):
        clauses, pure = [], True
        for dn, as_, rt in self.dtors_of(ty):
            names, pnames, cctx = [], [], list(ctx)
            kbind = None
            for an, t in as_:
                pn, n = self.fresh_name(cctx)
                while pn in pnames:
                    self.uid += 1
                    pn = "b%d" % self.uid
                    n = self.real(pn)
                pnames.append(pn)
                names.append(n)
                cctx.append((pn, "cns" if an.startswith("k") else "prd", t, n))
                if an.startswith("k"):
                    kbind = (n, t)
            # clause bodies are pure in mode seq (a destructor call is then a pure expression)
            body = self.gen(rt, cctx, max(0, b // 2), False)
            pure = pure and body.pure
            ivs = [x for x in cctx[len(ctx):] if x[1] == "prd" and x[2] == "i64"]
            if kbind and ivs and self.r.random() < 0.6:
                # leave through the covariable parameter for one input value (calls of such destructors are never pure, see g_dtor)
                body = T("if %s == 0 { goto %s (%s) } else { %s }" % (ivs[0][3], kbind[0], self.leaf(kbind[1], cctx).at(4), body.at(4)), 3, body.pure)
            clauses.append("%s%s => %s" % (dn, self.site("binders", "(%s)" % ", ".join(names) if names else "", names=list(names)), body.at(4)))
        return T("new { %s }" % self.site("clauses", ", ".join(clauses), clauses=list(clauses), form="new"), 2, pure)

    def g_dtor(self, ty, ctx, b, eff):
        cts = [t for t in self.insts if self.is_codata(t)]
        self.r.shuffle(cts)
        for cty in cts:
            ds = [d for d in self.dtors_of(cty) if d[2] == ty]
            if not ds:
                continue
            dn, as_, rt = self.r.choice(ds)
            if any(an.startswith("k") for an, _ in as_) and not eff:
                continue                 # may leave through the covariable argument: only where effects are allowed
            obj = self.gen(cty, ctx, b // 2, False)
            args, chis = [], []
            for an, t in as_:
                if an.startswith("k"):
                    cs = self.covars_of(ctx, t)
                    if not cs:
                        args = None
                        break
                    args.append(T(self.r.choice(cs)[3], 1))
                    chis.append("cns")
                else:
                    args.append(self.gen(t, ctx, b // (len(as_) + 2), False))
                    chis.append("prd")
            if args is None:
                continue
            return T("%s.%s%s%s" % (obj.at(2), dn, self.site("targs", self.targs(cty)) if self.targs(cty) else "",
                                    "(%s)" % self.site("args", ", ".join(a.at(4) for a in args), args=[a.at(4) for a in args], types=[t for _, t in as_],
                                                       chis=chis, prdvars=[b_[3] for b_ in self.visible(ctx) if b_[1] == "prd"],
                                                       covars=[b_[3] for b_ in self.visible(ctx) if b_[1] == "cns"]) if args else ""), 2,
                     obj.pure and all(a.pure for a in args) and "cns" not in chis)
        return None

    def g_print(self, ty, ctx, b, eff):
        a = self.gen("i64", ctx, b // 3, False)
        rest = self.gen(ty, ctx, b - 2, eff)
        return T("%s(%s); %s" % (self.r.choice(["print_i64", "println_i64", "println_i64"]), a.at(4), rest.at(4)), 4, False)

    def g_exit(self, ty, ctx, b, eff):
        a = self.gen("i64", ctx, b // 3, False)
        return T("exit %s" % a.at(1), 3, False)

    def g_letexit(self, ty, ctx, b, eff):
        """let h: i64 = <a term that may leave through `exit` in one branch>; exit <variable or literal>: the inner exit must win"""
        pn, n = self.fresh_name(ctx)
        cond, _ = self.cmp_text(ctx, max(1, b // 3))
        inner = self.leaf("i64", ctx)
        other = self.gen("i64", ctx, b // 3, False)
        bound = "if %s { exit %s } else { %s }" % (cond, inner.at(1), other.at(4))
        if self.r.random() < 0.5:
            bound = "if %s { print_i64(%s); exit %s } else { %s }" % (cond, inner.at(4), inner.at(1), other.at(4))
        last = self.leaf("i64", ctx + [(pn, "prd", "i64", n)])
        return T("let %s: i64 = %s; exit %s" % (n, bound, last.at(1)), 3, False)

    def g_label(self, ty, ctx, b, eff):
        pname, name = self.fresh_name(ctx)
        body = self.gen(ty, ctx + [(pname, "cns", ty, name)], b - 1, eff)
        return T("label %s { %s }" % (name, body.at(4)), 3, False)

    def g_handler(self, ty, ctx, b, eff):
        """label K { let r: RT = obj.d(args.., K); body }: a destructor call that receives a label of the enclosing block as its
        covariable argument and is NOT the tail of that block (its own return continuation is the rest of the let)"""
        cands = [(c, d) for c in self.insts if self.is_codata(c) for d in self.dtors_of(c) if any(an.startswith("k") and t == ty for an, t in d[1])]
        if not cands:
            return None
        cty, (dn, as_, rt) = self.r.choice(cands)
        kp, kn = self.fresh_name(ctx)
        ctx2 = ctx + [(kp, "cns", ty, kn)]
        obj = self.gen(cty, ctx2, b // 3, False)
        args = []
        for an, t in as_:
            if an.startswith("k"):
                cs = [kn] if t == ty else [c[3] for c in self.covars_of(ctx2, t)]
                if not cs:
                    return None
                args.append(self.r.choice(cs))
            else:
                args.append(self.gen(t, ctx2, b // (len(as_) + 3), False).at(4))
        rp, rn = self.fresh_name(ctx2)
        body = self.gen(ty, ctx2 + [(rp, "prd", rt, rn)], b // 2, eff)
        return T("label %s { let %s: %s = %s.%s%s(%s); %s }" % (kn, rn, rt, obj.at(2), dn, self.targs(cty), ", ".join(args), body.at(4)), 3, False)

    def g_goto(self, ty, ctx, b, eff):
        cs = [c for c in self.visible(ctx) if c[1] == "cns"]
        if not cs:
            return None
        c = self.r.choice(cs)
        a = self.gen(c[2], ctx, b // 2, False)
        return T("goto %s (%s)" % (self.site("goto", c[3], prdvars=[b[3] for b in self.visible(ctx) if b[1] == "prd"]), a.at(4)), 3, False)

    # ------------------------------------------------------------------ program
    def program(self):
        r = self.r
        self.mk_types()
        nd = r.randint(*self.ndefs)
        tys = ["i64"] * 3 + self.insts
        for i in range(nd):
            if i == 0:
                params = [("p%d" % k, "prd", "i64", "p%d" % k) for k in range(r.randint(0, self.max_main_params))]
                self.defs.append(dict(name="main", params=params, ret="i64", pure=False, loop=False, index=0))
                continue
            params = []
            used = set()
            for k in range(r.choice([0, 1, 1, 2, 2, 3, 4])):
                n = r.choice(self.names) if self.pressure else "a%d" % k
                if n in used:
                    continue
                used.add(n)
                if self.labels and r.random() < 0.15:
                    params.append((n, "cns", r.choice(["i64", "i64"] + [t for t in self.insts if self.is_data(t)]), self.real(n)))
                else:
                    params.append((n, "prd", r.choice(tys), self.real(n)))
            loop = r.random() < 0.4
            if loop:
                params = [("fuel", "prd", "i64", "fuel")] + [p for p in params if p[0] != "fuel"]
            pure = r.random() < 0.5 and not any(p[1] == "cns" for p in params)
            name = r.choice(["f", "g", "h", "go", "share_f", "lift_f", "lab", "cleanup_"]) + str(i) if self.pressure else "f%d" % i
            self.defs.append(dict(name=name, params=params, ret=r.choice(tys), pure=pure, loop=loop, index=i))
        texts = []
        for d in self.defs:
            self.cur = d["index"]
            ctx = [tuple(p) for p in d["params"]]
            b = r.randint(*self.budget_range)
            eff = not d["pure"]
            if d["loop"]:
                base = self.gen(d["ret"], ctx, b // 2, eff)
                # recursive call in a sequenced position: let-bound (non-codata) or directly as the result
                rec_args, _ = self.args_for(d["params"][1:], ctx, b // 3, eff)
                if rec_args is None:
                    body = base
                else:
                    call = "%s(%s)" % (d["name"], ", ".join(["fuel - 1"] + rec_args))
                    if d["ret"] == "i64" and r.random() < 0.5:
                        w = self.gen("i64", ctx, b // 3, False)
                        step = T("let rec_: i64 = %s; rec_ + %s" % (call, w.at(1)), 3)
                    else:
                        step = T(call, 1)
                    if eff and r.random() < 0.4:
                        step = T("println_i64(fuel); %s" % step.at(4), 4)
                    body = T("if fuel <= 0 { %s } else { %s }" % (base.at(4), step.at(4)), 3)
            else:
                body = self.gen(d["ret"], ctx, b, eff)
                if d["index"] == 0:
                    # main makes sure that some of the other definitions are actually executed
                    for other in r.sample(self.defs[1:], min(2, len(self.defs) - 1)):
                        sig = other["params"]
                        args, _ = self.args_for(sig[1:] if other["loop"] else sig, ctx, 6, False)
                        if args is None:
                            continue
                        if other["loop"]:
                            args = [str(r.choice([0, 1, 2, 3]))] + args
                        pn, rn = self.fresh_name(ctx)
                        body = T("let %s: %s = %s(%s); %s" % (rn, other["ret"], other["name"], ", ".join(args), body.at(4)), 3)
            ps = ", ".join("%s %s %s" % (rn, ":cns" if c == "cns" else ":", t) for n, c, t, rn in d["params"])
            texts.append("def %s(%s): %s { %s }" % (d["name"], ps, d["ret"], body.at(4)))
        return self.decl_text() + "\n" + "\n".join(texts) + "\n"


def generate(seed, n, **kw):
    """-> list of (name, source text, argument tuples)"""
    out = []
    for i in range(n):
        rng = random.Random((seed << 20) + i)
        g = FunGen(rng, **kw)
        try:
            src = g.program()
        except RecursionError:
            continue
        k = len(g.defs[0]["params"])
        args = [[rng.randrange(0, 4) for _ in range(k)]]
        if k:
            args.append([rng.choice([0, 1, -1, 7, 9223372036854775807, -9223372036854775807, 4294967296, -2147483648]) for _ in range(k)])
        out.append(("f%d_%d" % (seed, i), src, args))
    return out


# ---------------------------------------------------------------------------------------------- C15: ill-typed edits
import re as _re
_MARK = _re.compile("⟦/?\\d+⟧")


def strip_marks(s):
    return _MARK.sub("", s)


def _replace_site(src, i, new):
    a, b = "⟦%d⟧" % i, "⟦/%d⟧" % i
    p, q = src.index(a), src.index(b)
    return src[:p] + new + src[q + len(b):]


def ill_typed_edits(src, sites, decl_info, rng, per_class=3):
    """-> list of (class name, mutated source text); every edit is certainly ill-typed"""
    out = []
    by_kind = {}
    for i, m in sites.items():
        if ("⟦%d⟧" % i) in src:
            by_kind.setdefault(m["kind"], []).append(i)

    def pick(kind, pred=lambda m: True):
        c = [i for i in by_kind.get(kind, []) if pred(sites[i])]
        rng.shuffle(c)
        return c[:per_class]
    nullary = decl_info["nullary_ctor"]
    for i in pick("args", lambda m: len(m["args"]) >= 1):
        m = sites[i]
        out.append(("arg-count-less", _replace_site(src, i, ", ".join(m["args"][:-1]))))
    for i in pick("args"):
        m = sites[i]
        out.append(("arg-count-more", _replace_site(src, i, ", ".join(m["args"] + ["0"]))))
    for i in pick("args", lambda m: any(c == "prd" for c in m["chis"])):
        m = sites[i]
        k = rng.choice([j for j, c in enumerate(m["chis"]) if c == "prd"])
        wrong = nullary if m["types"][k] == "i64" else "7"
        a = list(m["args"])
        a[k] = wrong
        out.append(("arg-type", _replace_site(src, i, ", ".join(a))))
    # a constructor of another (monomorphic) data type where a data value of type T is expected
    for i in pick("args", lambda m: any(c == "prd" and t in decl_info["other_ctor"] for c, t in zip(m["chis"], m["types"]))):
        m = sites[i]
        k = rng.choice([j for j, (c, t) in enumerate(zip(m["chis"], m["types"])) if c == "prd" and t in decl_info["other_ctor"]])
        a = list(m["args"])
        a[k] = decl_info["other_ctor"][m["types"][k]]
        out.append(("constructor-of-other-type", _replace_site(src, i, ", ".join(a))))
    for i in pick("args", lambda m: any(c == "cns" for c in m["chis"])):
        m = sites[i]
        k = rng.choice([j for j, c in enumerate(m["chis"]) if c == "cns"])
        a = list(m["args"])
        a[k] = "(0)"
        out.append(("term-as-covariable", _replace_site(src, i, ", ".join(a))))
    for i in pick("args", lambda m: any(c == "prd" for c in m["chis"]) and m["covars"]):
        m = sites[i]
        k = rng.choice([j for j, c in enumerate(m["chis"]) if c == "prd"])
        a = list(m["args"])
        a[k] = m["covars"][0]
        out.append(("covariable-as-term", _replace_site(src, i, ", ".join(a))))
    for i in pick("var"):
        out.append(("unbound-variable", _replace_site(src, i, "zz_unbound_q")))
    for i in pick("goto"):
        out.append(("unbound-covariable", _replace_site(src, i, "zz_unbound_k")))
    for i in pick("goto", lambda m: m["prdvars"]):
        out.append(("variable-as-goto-target", _replace_site(src, i, sites[i]["prdvars"][0])))
    # a producer binding that shadows the covariable of the same name: the right-most binding decides, so the goto is ill-typed
    for i in pick("goto"):
        a, b = "⟦%d⟧" % i, "⟦/%d⟧" % i
        p0, q0 = src.index(a), src.index(b)
        g0 = src.rfind("goto ", 0, p0)
        o = src.index("(", q0)
        depth, j = 0, o
        while True:
            depth += {"(": 1, ")": -1}.get(src[j], 0)
            if depth == 0:
                break
            j += 1
        k = src[p0 + len(a):q0]
        out.append(("producer-shadows-goto-target", src[:g0] + "(let %s: i64 = 0; goto %s %s)" % (k, k, src[o:j + 1]) + src[j + 1:]))
    # and the converse: a label binder shadows the variable of the same name, which is then used as a term
    for i in pick("var"):
        a, b = "⟦%d⟧" % i, "⟦/%d⟧" % i
        v = src[src.index(a) + len(a):src.index(b)]
        out.append(("covariable-shadows-variable", _replace_site(src, i, "(label %s { %s })" % (v, v))))
    for i in pick("callee"):
        out.append(("undefined-definition", _replace_site(src, i, "zz_undefined_f")))
    for i in pick("clauses", lambda m: len(m["clauses"]) >= 1):
        m = sites[i]
        k = rng.randrange(len(m["clauses"]))
        out.append(("missing-clause", _replace_site(src, i, ", ".join(m["clauses"][:k] + m["clauses"][k + 1:]))))
    for i in pick("clauses", lambda m: len(m["clauses"]) >= 1):
        m = sites[i]
        k = rng.randrange(len(m["clauses"]))
        out.append(("duplicated-clause", _replace_site(src, i, ", ".join(m["clauses"] + [m["clauses"][k]]))))
    for i in pick("clauses"):
        m = sites[i]
        extra = "Zz_Unknown => 0" if m["form"] == "case" else "zz_unknown => 0"
        out.append(("extra-clause", _replace_site(src, i, ", ".join(m["clauses"] + [extra]))))
    for i in pick("binders", lambda m: len(m["names"]) >= 1):
        m = sites[i]
        ns = m["names"][:-1]
        out.append(("binder-count-less", _replace_site(src, i, "(%s)" % ", ".join(ns) if ns else "")))
    for i in pick("binders"):
        m = sites[i]
        out.append(("binder-count-more", _replace_site(src, i, "(%s)" % ", ".join(m["names"] + ["zz_b"]))))
    for i in pick("binders", lambda m: len(m["names"]) >= 2):
        m = sites[i]
        out.append(("binder-bound-twice", _replace_site(src, i, "(%s)" % ", ".join([m["names"][0]] * 2 + m["names"][2:]))))
    for i in pick("targs"):
        out.append(("type-argument-count-less", _replace_site(src, i, "")))
    for i in pick("targs"):
        m = sites[i]
        out.append(("type-argument-count-more", _replace_site(src, i, m["text"][:-1] + ", i64]")))
    for i in pick("letty", lambda m: m["simple"]):
        m = sites[i]
        if m["other"] == "D0" and not decl_info["has_D0"]:
            continue
        out.append(("annotation-mismatch", _replace_site(src, i, m["other"])))
    # declaration-level edits
    plain = src
    defs = [l for l in strip_marks(plain).split("\n") if l.startswith("def ")]
    datas = [l for l in strip_marks(plain).split("\n") if l.startswith("data ")]
    if defs:
        d = rng.choice(defs)
        out.append(("duplicate-definition", plain + d + "\n"))
    if datas:
        d = rng.choice(datas)
        out.append(("duplicate-type", plain + d + "\n"))
        # duplicate constructor inside a declaration
        m = _re.match(r"^(data \w+(\[[^\]]*\])? \{ )(\w+)(.*)$", d)
        if m:
            out.append(("duplicate-constructor", plain.replace(d, m.group(1) + m.group(3) + ", " + m.group(3) + m.group(4))))
    return [(c, strip_marks(t)) for c, t in out]


def generate_marked(seed, n, **kw):
    """-> list of (name, clean source, [(class, ill-typed source)])"""
    res = []
    for i in range(n):
        rng = random.Random((seed << 20) + i)
        g = FunGen(rng, mark=True, **kw)
        try:
            src = g.program()
        except RecursionError:
            continue
        nullary = next(c for d in g.data.values() for c, fs in d["ctors"] if not fs and not d["params"])
        mono = {n: next(c for c, fs in d["ctors"] if not fs) for n, d in g.data.items() if not d["params"] and any(not fs for c, fs in d["ctors"])}
        other = {t: next(c for u, c in mono.items() if u != t) for t in mono if len(mono) >= 2}
        info = {"nullary_ctor": nullary, "has_D0": "D0" in g.data, "other_ctor": other}
        muts = ill_typed_edits(src, g.sites, info, random.Random((seed << 20) + i + 7))
        res.append(("t%d_%d" % (seed, i), strip_marks(src), muts))
    return res
