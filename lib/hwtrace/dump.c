/* Appends the 17 saved words (r15..r8, rdi, rsi, rbp, rbx, rdx, rcx, rax, rflags, return address) of one statement marker
   to the file named by SCCV_HWTRACE. */
#include <fcntl.h>
#include <stdlib.h>
#include <unistd.h>
static int fd = -2;
void sccv_dump(const unsigned long long *saved) {
    if (fd == -2) {
        const char *p = getenv("SCCV_HWTRACE");
        fd = p ? open(p, O_WRONLY | O_CREAT | O_TRUNC, 0644) : -1;
    }
    if (fd >= 0) {
        ssize_t n = write(fd, saved, 17 * sizeof *saved);
        (void)n;
    }
}
