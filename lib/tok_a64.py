"""Tokenizer for the GNU-syntax AArch64 text printed by axcut2aarch64."""
import re, sys, json
from tok_common import TokError, imm, split_ops, parse_mark

REG = re.compile(r"^(X([0-9]|[12][0-9]|30)|SP|XZR)$", re.I)     # mnemonics and register names are case-insensitive, labels are not
IDENT = re.compile(r"^[A-Za-z_.$][\w.$]*$")
MEM = re.compile(r"^\[\s*(\w+)\s*(,\s*#?(-?\d+)\s*)?\](!)?$")
KNOWN = {"ADD", "SUB", "MUL", "SDIV", "MSUB", "B", "BR", "BL", "ADR", "MOV", "MOVZ", "MOVN", "MOVK", "LDR", "LDP",
         "STR", "STP", "CMP", "BEQ", "BNE", "BLT", "BLE", "BGT", "BGE", "RET",
         # forms the backend does not print today but a different instruction selection may (modelled in spec/A64.tla)
         "CBZ", "CBNZ", "NEG", "MVN", "AND", "ORR", "EOR", "LSL", "LSR", "ASR", "TBZ", "TBNZ", "MADD", "NOP", "SUBS", "ADDS", "BMI", "BPL", "BLR"}
ALIASES = {"B.EQ": "BEQ", "B.NE": "BNE", "B.LT": "BLT", "B.LE": "BLE", "B.GT": "BGT", "B.GE": "BGE", "B.MI": "BMI", "B.PL": "BPL"}

def operand(s):
    s = s.strip()
    if REG.match(s):
        return {"k": "reg", "r": s.upper()}
    m = MEM.match(s)
    if m:
        if not REG.match(m.group(1)):
            raise TokError("memory base is not a register: " + s)
        return {"k": "mem", "base": m.group(1).upper(), "off": int(m.group(3) or 0), "pre": bool(m.group(4)),
                "hasoff": m.group(3) is not None}
    if re.match(r"^#?-?\d+$", s):
        return imm(s.lstrip("#"))
    m = re.match(r"^LSL\s+#?(\d+)$", s, re.I)
    if m:
        return {"k": "lsl", "n": int(m.group(1))}
    if IDENT.match(s):
        return {"k": "lab", "l": s}
    raise TokError("operand? " + s)

def tokenize(text):
    out, directives = [], []
    for ln, line in enumerate(text.split("\n"), 1):
        code, _, com = line.partition("//")
        code, com = code.strip(), com.strip()
        if not code:
            if com.startswith("@mark"):
                out.append(parse_mark(com))
            continue
        if code.startswith("."):
            directives.append(code)
            continue
        if code.endswith(":"):
            l = code[:-1].strip()
            if not IDENT.match(l):
                raise TokError("line %d: bad label %r" % (ln, line))
            out.append({"op": "label", "l": l})
            continue
        m = re.match(r"^([\w.]+)(\s+(.*))?$", code)
        if m and m.group(1).upper() in ALIASES:
            code = ALIASES[m.group(1).upper()] + code[len(m.group(1)):]
            m = re.match(r"^([\w.]+)(\s+(.*))?$", code)
        if not m or m.group(1).upper() not in KNOWN:
            raise TokError("line %d: unknown instruction %r" % (ln, line))
        ops = [operand(x) for x in split_ops(m.group(3) or "")] if m.group(3) else []
        out.append({"op": m.group(1).upper(), "a": ops})
    return out, directives

if __name__ == "__main__":
    print(json.dumps(tokenize(open(sys.argv[1]).read())[0]))
