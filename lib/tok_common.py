"""Shared helpers for the assembly-text tokenizers. The tokenizers read only the printed text
(independent of `impl Print for Code`); a line they cannot read raises TokError (tool error)."""
import re

class TokError(Exception):
    pass

def limbs(x):
    x %= 1 << 64
    return [(x >> (16 * i)) & 0xffff for i in range(4)]

def unlimbs(l):
    u = sum(v << (16 * i) for i, v in enumerate(l))
    return u - (1 << 64) if u >= 1 << 63 else u

MARK = re.compile(r"^@mark (\w+) \[(.*)\]$")

def parse_mark(text):
    m = MARK.match(text)
    if not m:
        raise TokError("bad marker: " + text)
    ctx = []
    if m.group(2):
        for b in m.group(2).split(","):
            i, c = b.split(":")
            ctx.append({"id": int(i), "chi": c})
    return {"op": "mark", "kind": m.group(1), "ctx": ctx}

def imm(s):
    v = int(s)
    if not -(1 << 63) <= v < (1 << 64):
        raise TokError("immediate out of 64-bit range: " + s)
    # small: the value itself when it is safely a TLC integer, else 0 with big=True
    small = abs(v) < (1 << 30)
    return {"k": "imm", "w": limbs(v), "s": v if small else 0, "big": not small,
            "fits32": -(1 << 31) <= v < (1 << 31)}

def split_ops(s):
    parts, depth, cur = [], 0, ""
    for ch in s:
        if ch == "[":
            depth += 1
        if ch == "]":
            depth -= 1
        if ch == "," and depth == 0:
            parts.append(cur)
            cur = ""
        else:
            cur += ch
    if cur.strip() or parts:
        parts.append(cur)
    return [p.strip() for p in parts]
