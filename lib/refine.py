"""Build the inputs of spec/Refine.tla from harness artifacts and run the lock-step product."""
import json, os
from common import *
import tok_x86
from tok_common import TokError

TOKENIZERS = {"x86": tok_x86.tokenize}
try:
    import tok_a64, tok_rv64
    TOKENIZERS["a64"] = tok_a64.tokenize
    TOKENIZERS["rv64"] = tok_rv64.tokenize
except ImportError:
    pass


def load_code(artdir, name, backend):
    path = os.path.join(artdir, "%s.%s.asm" % (name, backend))
    text = open(path).read()
    code, directives = TOKENIZERS[backend](text)
    labels, dups = labels_of(code)
    out = {"code": code, "labels": labels, "dups": dups, "directives": directives, "text": text}
    # byte addresses in units of one instruction (AArch64 / RISC-V: every instruction is 4 bytes)
    addr, ataddr, n = [], [], 0
    for i, ins in enumerate(code, 1):
        addr.append(n)
        if ins["op"] not in ("label", "mark"):
            n += 1
            ataddr.append(i)
    out["addr"], out["ataddr"] = addr, ataddr
    out["entry"] = next((i for i, ins in enumerate(code, 1) if ins["op"] == "label"), 1)
    return out


def make_inputs(artdir, workdir, backend, cases, maxsteps=200000, nblocks=256, footprint_k=2, skip_counts=False):
    """cases: list of (program name, [int args]).  Returns env for TLC and the number of cases."""
    progs, pidx, tcases = [], {}, []
    for name, args in cases:
        if name not in pidx:
            c = load_code(artdir, name, backend)
            q = index_axcut(json.load(open(os.path.join(artdir, name + ".axcutlin.json"))))
            progs.append({"name": name, "code": c["code"], "labels": c["labels"], "prog": q,
                          "addr": c["addr"], "ataddr": c["ataddr"], "entry": c["entry"]})
            pidx[name] = len(progs)
        tcases.append({"p": pidx[name], "name": "%s@%s" % (name, ",".join(map(str, args))),
                       "args": [_limbs(a) for a in args]})
    cfg = json.load(open(os.path.join(artdir, backend + ".config.json")))
    cfg = norm_regs(cfg, backend)
    cfg.update({"maxsteps": maxsteps, "nblocks": nblocks, "footprint_k": footprint_k, "skip_counts": skip_counts, "strict_encode": False})
    os.makedirs(workdir, exist_ok=True)
    paths = {}
    for nm, obj in (("progs", progs), ("cases", tcases), ("cfg", cfg)):
        p = os.path.join(workdir, "%s.%s.json" % (backend, nm))
        json.dump(obj, open(p, "w"))
        paths[nm] = p
    env = {"SCCV_PROGS": paths["progs"], "SCCV_CASES": paths["cases"], "SCCV_CFG": paths["cfg"]}
    return env, len(tcases)


def norm_regs(o, backend):
    """register names as the tokenizers spell them (upper case on AArch64 / RISC-V, lower case on x86-64), whatever case the backend prints"""
    if isinstance(o, dict):
        return {k: ((v.upper() if backend in ("a64", "rv64") else v.lower()) if k == "r" and isinstance(v, str) else norm_regs(v, backend)) for k, v in o.items()}
    if isinstance(o, list):
        return [norm_regs(x, backend) for x in o]
    return o


def _limbs(x):
    x %= 1 << 64
    return [(x >> (16 * i)) & 0xffff for i in range(4)]


def run_refine(artdir, workdir, backend, cases, **kw):
    tl = kw.pop("timeout", 1800)
    env, n = make_inputs(artdir, workdir, backend, cases, **kw)
    return tlc_batch("Refine", "Refine.cfg", workdir, env, n, timeout=tl)
