"""Directed families of *linear* AxCut programs, built directly (no linearizer in between), so that
operand/target placements, environment sizes and substitutions can be enumerated exactly
(C06/C07/C08 placements, C11 substitutions, C13 print pressure, C20 arities)."""
import itertools, random
from gen_axcut import limbs, LITS

TYPES = [
    {"name": "_Cont", "xtors": [{"name": "Ret", "args": [{"id": 0, "name": "x", "chi": "ext", "ty": "i64"}]}]},
    {"name": "Box", "xtors": [{"name": "Nil", "args": []},
                              {"name": "B1", "args": [{"id": 0, "name": "a", "chi": "ext", "ty": "i64"}]},
                              {"name": "B2", "args": [{"id": 0, "name": "a", "chi": "prd", "ty": "Box"},
                                                      {"id": 0, "name": "b", "chi": "ext", "ty": "i64"}]}]},
]


class LB:
    """Builder for one linear program: statements are appended in order; the ordered environment is tracked."""

    def __init__(self, nparams=0, types=None):
        self.nodes = []
        self.next_id = 0
        self.types = types or TYPES
        self.defs = []
        self.params = [self.fresh("p", "ext", "i64") for _ in range(nparams)]
        self.env = list(self.params)
        self.stmts = []   # list of partial nodes (dict without "next"), or a terminal node

    def fresh(self, name, chi, ty):
        self.next_id += 1
        return {"id": self.next_id, "name": name, "chi": chi, "ty": ty}

    def push(self, n):
        self.nodes.append(n)
        return len(self.nodes)

    # ---- statements (each keeps self.env in sync with the linear discipline)
    def lit(self, c, name="i"):
        v = self.fresh(name, "ext", "i64")
        self.stmts.append({"k": "lit", "var": v, "lit": limbs(c)})
        self.env.append(v)
        return v

    def op(self, op, a, b):
        v = self.fresh("o", "ext", "i64")
        self.stmts.append({"k": "op", "var": v, "fst": a["id"], "op": op, "snd": b["id"]})
        self.env.append(v)
        return v

    def print(self, a, nl=True):
        self.stmts.append({"k": "print", "nl": nl, "var": a["id"]})

    def let(self, ty, tag, nargs):
        """consumes the last nargs variables of the environment"""
        args = [dict(x) for x in self.env[len(self.env) - nargs:]] if nargs else []
        v = self.fresh("d", "prd", ty)
        self.stmts.append({"k": "let", "var": v, "tag": tag, "args": args})
        self.env = self.env[:len(self.env) - nargs] + [v]
        return v

    def substitute(self, pairs):
        """pairs: list of (old variable, kind-preserving); new variables get fresh ids"""
        re, newenv = [], []
        for old in pairs:
            nv = self.fresh(old["name"], old["chi"], old["ty"])
            re.append({"new": nv, "old": old["id"]})
            newenv.append(nv)
        self.stmts.append({"k": "substitute", "re": re})
        self.env = newenv
        return newenv

    def finish_exit(self, v):
        return self.fold({"k": "exit", "var": v["id"]})

    def fold(self, terminal):
        node = self.push(terminal)
        for st in reversed(self.stmts):
            st = dict(st)
            st["next"] = node
            node = self.push(st)
        self.stmts = []
        return node

    def add_def(self, name, ctx, body):
        self.defs.append({"name": name, "ctx": ctx, "body": body})

    def program(self):
        return {"defs": self.defs, "types": self.types, "nodes": self.nodes, "max_id": self.next_id}


def simple(nparams, build):
    b = LB(nparams)
    res = build(b)
    body = b.finish_exit(res)
    b.defs.insert(0, {"name": "main", "ctx": b.params, "body": body})
    return b.program()


# ---------------------------------------------------------------- F1: literals at every position
def fam_literals(rng, n):
    out = []
    for k in range(n):
        rot = rng.randrange(len(LITS))
        vals = LITS[rot:] + LITS[:rot]
        vals = vals[:rng.choice([8, 16, 24, 30])]

        def build(b, vals=vals):
            last = None
            for c in vals:
                last = b.lit(c)
            return last
        out.append(("lits%d" % k, simple(0, build), [[]]))
    return out


# ---------------------------------------------------------------- F2: operators with enumerated placements
INTERESTING = [1, 2, 3, 5, 6, 7, 8, 12, 13, 14, 15, 16, 20]


def nonzero_vals(rng, k):
    vals = []
    for _ in range(k):
        v = rng.choice(LITS + list(range(-9, 10)))
        if v == 0:
            v = 3
        vals.append(v)
    return vals


def fam_ops(rng, n):
    out = []
    for k in range(n):
        K = rng.choice(INTERESTING)
        vals = nonzero_vals(rng, K)

        def build(b, K=K, vals=vals):
            for c in vals:
                b.lit(c)
            last = b.env[-1]
            for _ in range(rng.choice([1, 2, 4, 6])):
                cand = [p for p in INTERESTING if p <= len(b.env)] + [len(b.env), max(1, len(b.env) - 1)]
                a = b.env[rng.choice(cand) - 1]
                c = b.env[rng.choice(cand) - 1]
                op = rng.choice(["add", "sub", "mul", "div", "rem"])
                if op in ("div", "rem") and rng.random() < 0.5:
                    c = a  # same operand twice: x / x
                last = b.op(op, a, c)
            return last
        out.append(("ops%d" % k, simple(0, build), [[]]))
    return out


# ---------------------------------------------------------------- F3: comparisons (both forms), continuing through calls
def fam_ifc(rng, n):
    out = []
    sorts = ["eq", "ne", "lt", "le", "gt", "ge"]
    for k in range(n):
        K = rng.choice(INTERESTING)
        b = LB(0)
        base = rng.choice([0, 1, -1, 5, (1 << 63) - 1, -(1 << 63), 1 << 32])
        near = base + 1 if base < (1 << 63) - 1 else base - 1
        m = rng.choice([1, 2, 3])
        defs, prev = [], None
        for j in reversed(range(m + 1)):   # continuation definitions, last one first
            L = K + j
            ctx = [b.fresh("e", "ext", "i64") for _ in range(L)]
            if j == m:
                body = b.push({"k": "exit", "var": ctx[-1]["id"]})
            else:
                cand = [p for p in INTERESTING if p <= L] + [L]
                a = ctx[rng.choice(cand) - 1]
                c = ctx[rng.choice(cand) - 1]
                zero = rng.random() < 0.4
                tv, ev = b.fresh("t", "ext", "i64"), b.fresh("f", "ext", "i64")
                ct = b.push({"k": "call", "label": prev, "args": [dict(x) for x in ctx] + [tv]})
                ce = b.push({"k": "call", "label": prev, "args": [dict(x) for x in ctx] + [ev]})
                lt = b.push({"k": "lit", "var": tv, "lit": limbs(100 + j), "next": ct})
                le = b.push({"k": "lit", "var": ev, "lit": limbs(200 + j), "next": ce})
                body = b.push({"k": "ifc", "sort": rng.choice(sorts), "fst": a["id"], "snd": 0 if zero else c["id"],
                               "thenc": lt, "elsec": le})
            prev = "k%d" % j
            defs.append({"name": prev, "ctx": ctx, "body": body})
        for i in range(K):
            b.lit(rng.choice([base, base, near, 0, -3, 7]))
        body = b.fold({"k": "call", "label": "k0", "args": [dict(x) for x in b.env]})
        prog = {"defs": [{"name": "main", "ctx": [], "body": body}] + list(reversed(defs)), "types": TYPES,
                "nodes": b.nodes, "max_id": b.next_id}
        out.append(("ifc%d" % k, prog, [[]]))
    return out


# ---------------------------------------------------------------- F4: print with k live variables of mixed kinds
def fam_print(rng, n, nparams_max=5):
    out = []
    for k in range(n):
        K = k % 22
        nparams = rng.randrange(0, nparams_max + 1)

        def build(b, K=K):
            ints = list(b.params)
            while len(b.env) < K:
                r = rng.random()
                if r < 0.55:
                    ints.append(b.lit(rng.randrange(-50, 50)))
                elif r < 0.75:
                    b.let("Box", "Nil", 0)
                else:
                    b.lit(rng.randrange(-50, 50))
                    b.let("Box", "B1", 1)
            live_ints = [v for v in b.env if v["chi"] == "ext"]
            if not live_ints:
                live_ints = [b.lit(7)]
            b.print(rng.choice(live_ints), nl=rng.random() < 0.5)
            if rng.random() < 0.5:
                b.print(rng.choice(live_ints), nl=True)
            # use every integer afterwards
            acc = live_ints[0]
            for v in live_ints[1:]:
                acc = b.op("add", acc, v)
            return acc
        p = simple(nparams, build)
        args = [[rng.randrange(-5, 6) for _ in range(nparams)], [rng.choice(LITS) for _ in range(nparams)]] if nparams else [[]]
        out.append(("print%d" % k, p, args))
    return out


# ---------------------------------------------------------------- F5: main arities (C20 / C13)
def fam_arity(maxn):
    out = []
    for n in range(maxn + 1):
        def build(b):
            for p in b.params:
                b.print(p, nl=True)
            acc = b.lit(0)
            for p in b.params:
                acc = b.op("add", acc, p)
            return acc
        p = simple(n, build)
        vals = [1 << 40, -7, 3, (1 << 63) - 1, -(1 << 63), 12345, -1][:n]
        out.append(("arity%d" % n, p, [list(range(1, n + 1)), vals]))
    return out


# ---------------------------------------------------------------- F6: explicit substitutions (C11)
def subst_program(n, kinds, mapping, offset, rng=None):
    """environment: `offset` padding integers, then n variables of the given kinds ('e' ext, 'o' object);
    substitute keeps the padding in place and maps new variable j to old variable mapping[j]."""
    b = LB(0)
    pad = [b.lit(1000 + i, "pad") for i in range(offset)]
    olds = []
    for i, kd in enumerate(kinds):
        if kd == "e":
            olds.append(b.lit(10 + i, "x"))
        else:
            b.lit(20 + i)
            olds.append(b.let("Box", "B1", 1))
    newpad = b.substitute(pad + [olds[j] for j in mapping])
    news = newpad[len(pad):]
    # afterwards: drop everything except one integer (second substitution), so that releases happen too
    ints = [v for v in b.env if v["chi"] == "ext"]
    if not ints:
        z = b.lit(0)
        ints = [z]
    keep = ints[-1]
    b.substitute([keep])
    body = b.finish_exit(b.env[0])
    b.defs.insert(0, {"name": "main", "ctx": [], "body": body})
    return b.program()


def all_maps(n, m):
    return itertools.product(range(n), repeat=m)


def fam_subst_exhaustive(maxn, maxm, offsets, kind_patterns=None):
    out = []
    for n in range(maxn + 1):
        kps = kind_patterns(n) if kind_patterns else list(itertools.product("eo", repeat=n))
        for kinds in kps:
            for m in range(maxm + 1):
                if n == 0 and m > 0:
                    continue
                for mp in all_maps(n, m):
                    for off in offsets:
                        name = "sub_n%d_%s_m%s_o%d" % (n, "".join(kinds) or "-", "".join(map(str, mp)) or "-", off)
                        out.append((name, subst_program(n, kinds, mp, off), [[]]))
    return out


def fam_subst_random(rng, count, maxn=8, offsets=(0, 2, 4, 5, 6, 10, 11, 12, 13)):
    out = []
    for k in range(count):
        n = rng.randrange(1, maxn + 1)
        m = rng.randrange(0, maxn + 1)
        kinds = [rng.choice("eo") for _ in range(n)]
        mp = [rng.randrange(n) for _ in range(m)]
        off = rng.choice(offsets)
        out.append(("subr%d" % k, subst_program(n, kinds, mp, off), [[]]))
    return out


# ---------------------------------------------------------------- F7: mutator histories of the allocator design model (C09/C10)
def history_program(hist, pad=0):
    """hist: list of [action, a, b, c] as printed by spec/MC_Heap.tla (let k moved atEnd | dup i | drop i | switch i).
    The environment of the linear program mirrors the design model's variable list exactly, after `pad` integer variables
    that stay at the front for the whole run (they push every model variable - in particular the destination of each let -
    into higher temporaries: past the register file of x86-64 for pad >= 6 and of AArch64 for pad >= 13)."""
    types = [{"name": "_Cont", "xtors": [{"name": "Ret", "args": [{"id": 0, "name": "x", "chi": "ext", "ty": "i64"}]}]}]
    tnames = {}

    def type_for(sig):   # sig: tuple of field type names ("i64" or an object type)
        if sig not in tnames:
            nm = "O%d" % len(tnames)
            tnames[sig] = nm
            types.append({"name": nm, "xtors": [{"name": "K" + nm, "args": [
                {"id": 0, "name": "f%d" % j, "chi": "ext" if t == "i64" else "prd", "ty": t} for j, t in enumerate(sig)]}]})
        return tnames[sig]
    b = LB(0, types=types)
    pads = [b.lit(100 + j, "pad") for j in range(pad)]

    def sub(vs):
        """substitute keeping the pads in front; -> the new environment behind the pads"""
        env = b.substitute(pads + vs)
        pads[:] = env[:len(pads)]
        return env[len(pads):]
    # model variables: list of dicts {var, sig} in the order of the design model's `vars`
    mv = []
    for act, x, ms, at_end in hist:
        if act == "let":
            k = x
            moved = [mv[i - 1] for i in ms]
            rest = [v for j, v in enumerate(mv, 1) if j not in ms]
            n = len(moved)
            ints = [b.lit(7 + j, "n") for j in range(k - n)]
            intvars = [{"var": v, "sig": None} for v in ints]
            fields = (intvars + moved) if at_end else (moved + intvars)
            # bring the environment into the order: rest, then the fields
            newenv = sub([r["var"] for r in rest] + [f["var"] for f in fields])
            for r, nv in zip(rest, newenv[:len(rest)]):
                r["var"] = nv
            sig = tuple("i64" if f["sig"] is None else f["tyname"] for f in fields)
            ty = type_for(sig)
            v = b.let(ty, "K" + ty, k)
            mv = rest + [{"var": v, "sig": sig, "tyname": ty, "fields": [dict(f) for f in fields]}]
        elif act == "dup":
            src = mv[x - 1]
            newenv = sub([m["var"] for m in mv] + [src["var"]])
            for m, nv in zip(mv, newenv):
                m["var"] = nv
            cp = dict(src)
            cp["var"] = b.env[-1]
            mv = mv + [cp]
        elif act == "drop":
            keep = [m for j, m in enumerate(mv, 1) if j != x]
            newenv = sub([m["var"] for m in keep])
            for m, nv in zip(keep, newenv):
                m["var"] = nv
            mv = keep
        elif act == "switch":
            tgt = mv[x - 1]
            rest = [m for j, m in enumerate(mv, 1) if j != x]
            newenv = sub([m["var"] for m in rest] + [tgt["var"]])
            for m, nv in zip(rest, newenv):
                m["var"] = nv
            scrut = b.env[-1]
            binders = []
            loaded = []
            for f in tgt["fields"]:
                if f["sig"] is None:
                    nv = b.fresh("g", "ext", "i64")
                    loaded.append({"var": nv, "sig": None})
                else:
                    nv = b.fresh("h", "prd", f["tyname"])
                    cp = dict(f)
                    cp["var"] = nv
                    loaded.append(cp)
                binders.append(nv)
            # the rest of the program continues inside the single clause
            b.stmts.append({"k": "switch", "var": scrut["id"], "ty": tgt["tyname"], "clause_xtor": "K" + tgt["tyname"], "binders": binders})
            b.env = b.env[:-1] + binders
            mv = rest + loaded
        else:
            raise ValueError(act)
    z = b.lit(0, "z")
    # fold: statements after a `switch` live in its clause body
    node = b.push({"k": "exit", "var": z["id"]})
    for st in reversed(b.stmts):
        st = dict(st)
        if st["k"] == "switch":
            node = b.push({"k": "switch", "var": st["var"], "ty": st["ty"],
                           "clauses": [{"xtor": st["clause_xtor"], "ctx": st["binders"], "body": node}]})
        else:
            st["next"] = node
            node = b.push(st)
    b.stmts = []
    return {"defs": [{"name": "main", "ctx": [], "body": node}], "types": types, "nodes": b.nodes, "max_id": b.next_id}
