"""G-AxCut: generator of well-typed *non-linear* AxCut programs (JSON shape of ser_axcut.rs).
They are linearised by the real `Prog::linearize` and compiled by the real backends.
Everything random is drawn from the rng handed in (seeded from VERIF_SEED by the caller)."""
import random

LITS = [0, 1, -1, 2, 3, 5, 7, 10, -7, 255, 256, -256, 1 << 15, -(1 << 15), (1 << 16) - 1, 1 << 16, -(1 << 16),
        (1 << 31) - 1, 1 << 31, -(1 << 31), -(1 << 31) - 1, (1 << 32) - 1, 1 << 32, -(1 << 32), 1 << 47, -(1 << 47),
        1 << 48, -(1 << 48), (1 << 63) - 1, -(1 << 63), 0x0000ffff0000ffff, -0x0000ffff00010000, 0x7fff0000ffff0000,
        0x123456789abcdef, -0x123456789abcdef, 0xffff, 0xffff0000, 0xffff00000000, -0xffff00000001]
OPS = ["add", "sub", "mul", "div", "rem"]
SORTS = ["eq", "ne", "lt", "le", "gt", "ge"]


def limbs(x):
    x %= 1 << 64
    return [(x >> (16 * i)) & 0xffff for i in range(4)]


class Gen:
    def __init__(self, rng, max_fields=8, ntypes=(1, 3), ndefs=(1, 3), budget=(4, 12), pressure=(0, 0),
                 prints=True, big_lits=True, max_params=5, div_ok=True, main_params=None,
                 max_nodes=90, xtor_counts=(1, 1, 2, 2, 2, 3, 4), field_counts=(0, 0, 1, 1, 2, 2, 3, 3, 4, 5, 6, 7, 8)):
        self.r = rng
        self.nodes = []
        self.next_id = 0
        self.max_fields = max_fields
        self.prints = prints
        self.big_lits = big_lits
        self.div_ok = div_ok
        self.types = []
        self.defs = []
        self.budget_range = budget
        self.pressure = pressure
        self.ntypes = ntypes
        self.ndefs = ndefs
        self.max_params = max_params
        self.main_params = main_params
        self.cdepth = 0
        self.max_nodes = max_nodes
        self.xtor_counts = xtor_counts
        self.field_counts = field_counts

    # ---------------------------------------------------------------- basics
    def fresh(self, name, chi, ty):
        self.next_id += 1
        return {"id": self.next_id, "name": name, "chi": chi, "ty": ty}

    def push(self, node):
        self.nodes.append(node)
        return len(self.nodes)

    def lit_value(self):
        if self.big_lits and self.r.random() < 0.35:
            return self.r.choice(LITS)
        if self.r.random() < 0.1:
            return self.r.randrange(-(1 << 63), 1 << 63)
        return self.r.randrange(-9, 10)

    # ---------------------------------------------------------------- types
    def gen_types(self):
        n = self.r.randint(*self.ntypes)
        names = ["T%d" % i for i in range(n)]
        self.types = [{"name": "_Cont", "xtors": [{"name": "Ret", "args": [{"id": 0, "name": "x", "chi": "ext", "ty": "i64"}]}]}]
        for i, nm in enumerate(names):
            nx = self.r.choice(self.xtor_counts)
            xtors = []
            for j in range(nx):
                nf = self.r.choice(self.field_counts)
                nf = min(nf, self.max_fields)
                args = []
                for k in range(nf):
                    c = self.r.random()
                    if c < 0.5:
                        args.append({"id": 0, "name": "f%d" % k, "chi": "ext", "ty": "i64"})
                    elif c < 0.8:
                        args.append({"id": 0, "name": "f%d" % k, "chi": "prd", "ty": self.r.choice(names)})
                    else:
                        args.append({"id": 0, "name": "f%d" % k, "chi": "cns", "ty": self.r.choice(names + ["_Cont"])})
                xtors.append({"name": "%s_X%d" % (nm, j), "args": args})
            self.types.append({"name": nm, "xtors": xtors})
        # make sure every type has a finitely constructible xtor (first xtor: no prd fields of later-or-equal types)
        for i, t in enumerate(self.types[1:]):
            t["xtors"][0]["args"] = [a for a in t["xtors"][0]["args"]
                                     if not (a["chi"] == "prd" and names.index(a["ty"]) >= i)]

    def type_decl(self, ty):
        return next(t for t in self.types if t["name"] == ty)

    # ---------------------------------------------------------------- obtaining variables
    def pick(self, scope, chi, ty):
        # object arguments of a method are never passed on or invoked (no self-application, hence termination)
        c = [v for v in scope if v["chi"] == chi and v["ty"] == ty and not v.get("taint")]
        return self.r.choice(c) if c else None

    def with_var(self, scope, chi, ty, budget, k, reuse=0.75):
        """Continue with a variable of the requested kind: an existing one or a freshly built one."""
        v = self.pick(scope, chi, ty)
        if v is not None and (self.r.random() < reuse or budget <= 0):
            return k(scope, v)
        if chi == "ext":
            nv = self.fresh("i", "ext", "i64")
            nxt = k(scope + [nv], nv)
            return self.push({"k": "lit", "var": nv, "lit": limbs(self.lit_value()), "next": nxt})
        if chi == "prd":
            decl = self.type_decl(ty)
            x = decl["xtors"][0] if budget <= 1 else self.r.choice(decl["xtors"])
            nv = self.fresh("d", "prd", ty)
            return self.with_args(scope, x["args"], budget - 1,
                                  lambda sc, args: self.push({"k": "let", "var": nv, "tag": x["name"], "args": args,
                                                              "next": k(sc + [nv], nv)}))
        # cns: build a closure whose methods are generated statements
        decl = self.type_decl(ty)
        nv = self.fresh("c", "cns", ty)
        clauses = []
        share = max(0, (budget - 1) // max(1, len(decl["xtors"])))
        self.cdepth += 1
        for x in decl["xtors"]:
            binders = [self.fresh(a["name"], a["chi"], a["ty"]) for a in x["args"]]
            for b_ in binders:
                if b_["chi"] != "ext":
                    b_["taint"] = True
            body = self.stmt(scope + binders, min(share, 6) if self.cdepth <= 2 else 0, in_method=True)
            clauses.append({"xtor": x["name"], "ctx": binders, "body": body})
        self.cdepth -= 1
        nxt = k(scope + [nv], nv)
        return self.push({"k": "create", "var": nv, "hasenv": False, "env": [], "clauses": clauses, "next": nxt})

    def with_args(self, scope, sig, budget, k):
        """Obtain variables for a signature (list of bindings), then continue with the argument context."""
        def go(sc, i, acc):
            if i == len(sig):
                return k(sc, [dict(v) for v in acc])
            a = sig[i]
            return self.with_var(sc, a["chi"], a["ty"], max(0, budget // 2), lambda sc2, v: go(sc2, i + 1, acc + [v]))
        return go(scope, 0, [])

    # ---------------------------------------------------------------- statements
    def terminal(self, scope, budget, in_method):
        if len(self.nodes) > self.max_nodes or self.cdepth > 2:
            return self.exit_stmt(scope)
        r = self.r.random()
        # call a later definition (or the current loop definition, handled by the caller)
        later = [d for d in self.defs if d["index"] > self.cur_def]
        if later and r < (0.45 if not in_method else 0.15):
            d = self.r.choice(later)
            if d["loop"]:
                cnt = self.fresh("k", "ext", "i64")
                inner = self.with_args(scope + [cnt], d["ctx"][1:], budget,
                                       lambda sc, args: self.push({"k": "call", "label": d["name"], "args": [dict(cnt)] + args}))
                return self.push({"k": "lit", "var": cnt, "lit": limbs(self.r.choice([0, 1, 2, 3, 4])), "next": inner})
            return self.with_args(scope, d["ctx"], budget, lambda sc, args: self.push({"k": "call", "label": d["name"], "args": args}))
        clos = [v for v in scope if v["chi"] == "cns" and not v.get("taint")]
        if clos and r < 0.85:
            v = self.r.choice(clos)
            x = self.r.choice(self.type_decl(v["ty"])["xtors"])
            return self.with_args(scope, x["args"], budget,
                                  lambda sc, args: self.push({"k": "invoke", "var": v["id"], "tag": x["name"], "ty": v["ty"], "args": args}))
        return self.exit_stmt(scope)

    def exit_stmt(self, scope):
        ints = [v for v in scope if v["chi"] == "ext"]
        # fold a few live integers into the result so that they stay live until here
        k = min(len(ints), self.r.choice([0, 1, 2, 3]) + (self.r.randint(*self.pressure) if self.pressure[1] else 0))
        if not ints:
            nv = self.fresh("z", "ext", "i64")
            e = self.push({"k": "exit", "var": nv["id"]})
            return self.push({"k": "lit", "var": nv, "lit": limbs(self.lit_value()), "next": e})
        chosen = self.r.sample(ints, max(1, k))
        acc = chosen[0]
        chain = []
        for v in chosen[1:]:
            nv = self.fresh("s", "ext", "i64")
            chain.append((nv, acc, v))
            acc = nv
        node = self.push({"k": "exit", "var": acc["id"]})
        if self.prints and self.r.random() < 0.5:
            node = self.push({"k": "print", "nl": self.r.random() < 0.7, "var": acc["id"], "next": node})
        for nv, a, b in reversed(chain):
            node = self.push({"k": "op", "var": nv, "fst": a["id"], "op": self.r.choice(["add", "sub", "add", "mul"]), "snd": b["id"], "next": node})
        return node

    def stmt(self, scope, budget, in_method=False):
        if budget <= 0:
            return self.terminal(scope, 0, in_method)
        r = self.r.random()
        ints = [v for v in scope if v["chi"] == "ext"]
        if r < 0.14:
            nv = self.fresh("i", "ext", "i64")
            return self.push({"k": "lit", "var": nv, "lit": limbs(self.lit_value()), "next": self.stmt(scope + [nv], budget - 1, in_method)})
        if r < 0.32 and ints:
            op = self.r.choice(OPS if self.div_ok else OPS[:3])
            nv = self.fresh("o", "ext", "i64")

            def mk(sc, a, b):
                return self.push({"k": "op", "var": nv, "fst": a["id"], "op": op, "snd": b["id"], "next": self.stmt(sc + [nv], budget - 1, in_method)})
            a = self.r.choice(ints)
            if op in ("div", "rem") and self.r.random() < 0.8:
                # mostly a non-zero literal divisor (division by zero is outside every property's hypothesis)
                dv = self.fresh("q", "ext", "i64")
                val = self.r.choice([1, 2, 3, -1, -2, 7, 10, -10, 1 << 31, (1 << 63) - 1, -(1 << 63)])
                return self.push({"k": "lit", "var": dv, "lit": limbs(val), "next": mk(scope + [dv], a, dv)})
            return mk(scope, a, self.r.choice(ints))
        if r < 0.40 and ints and self.prints:
            a = self.r.choice(ints)
            return self.push({"k": "print", "nl": self.r.random() < 0.7, "var": a["id"], "next": self.stmt(scope, budget - 1, in_method)})
        if r < 0.52 and ints:
            a = self.r.choice(ints)
            zero = self.r.random() < 0.4
            b = None if zero else self.r.choice(ints)
            t = self.stmt(scope, (budget - 1) // 2, in_method)
            e = self.stmt(scope, (budget - 1) // 2, in_method)
            return self.push({"k": "ifc", "sort": self.r.choice(SORTS[:2] if zero and self.r.random() < 0.5 else SORTS),
                              "fst": a["id"], "snd": 0 if zero else b["id"], "thenc": t, "elsec": e})
        if r < 0.68:
            ty = self.r.choice(self.types)["name"]
            return self.with_var(scope, "prd", ty, budget - 1, lambda sc, v: self.stmt(sc, budget - 2, in_method), reuse=0.1)
        prds = [v for v in scope if v["chi"] == "prd"]
        if r < 0.86 and prds:
            v = self.r.choice(prds)
            decl = self.type_decl(v["ty"])
            clauses = []
            share = (budget - 1) // len(decl["xtors"])
            for x in decl["xtors"]:
                binders = [self.fresh(a["name"], a["chi"], a["ty"]) for a in x["args"]]
                if v.get("taint"):
                    for b_ in binders:
                        if b_["chi"] != "ext":
                            b_["taint"] = True
                clauses.append({"xtor": x["name"], "ctx": binders, "body": self.stmt(scope + binders, share, in_method)})
            return self.push({"k": "switch", "var": v["id"], "ty": v["ty"], "clauses": clauses})
        if r < 0.94:
            ty = self.r.choice(self.types)["name"]
            return self.with_var(scope, "cns", ty, budget - 1, lambda sc, v: self.stmt(sc, budget // 2, in_method), reuse=0.0)
        return self.terminal(scope, budget, in_method)

    # ---------------------------------------------------------------- definitions and program
    def gen_program(self):
        self.gen_types()
        nd = self.r.randint(*self.ndefs)
        tnames = [t["name"] for t in self.types]
        self.defs = []
        for i in range(nd):
            if i == 0:
                np_ = self.main_params if self.main_params is not None else self.r.choice([0, 0, 1, 1, 2, 3, 5])
                ctx = [self.fresh("p", "ext", "i64") for _ in range(np_)]
                name = "main"
            else:
                ctx = []
                for _ in range(self.r.randint(0, self.max_params)):
                    c = self.r.random()
                    if c < 0.5:
                        ctx.append(self.fresh("p", "ext", "i64"))
                    elif c < 0.8:
                        ctx.append(self.fresh("p", "prd", self.r.choice(tnames[1:])))
                    else:
                        ctx.append(self.fresh("p", "cns", self.r.choice(tnames)))
                name = "f%d" % i
            loop = i > 0 and self.r.random() < 0.4
            if loop:
                ctx = [self.fresh("n", "ext", "i64")] + ctx
            self.defs.append({"name": name, "ctx": ctx, "index": i, "loop": loop})
        for d in self.defs:
            self.cur_def = d["index"]
            budget = self.r.randint(*self.budget_range)
            scope = list(d["ctx"])
            if d["loop"]:
                n = d["ctx"][0]
                base = self.stmt(scope, budget // 2)
                one = self.fresh("one", "ext", "i64")
                n1 = self.fresh("n", "ext", "i64")
                sc2 = scope + [one, n1]
                # recursive call with the decremented counter first
                rest = d["ctx"][1:]
                call = self.with_args(sc2, rest, budget // 3,
                                      lambda sc, args: self.push({"k": "call", "label": d["name"], "args": [dict(n1)] + args}))
                # some work before recursing
                body2 = call
                if self.prints and self.r.random() < 0.5:
                    body2 = self.push({"k": "print", "nl": True, "var": n["id"], "next": body2})
                dec = self.push({"k": "op", "var": n1, "fst": n["id"], "op": "sub", "snd": one["id"], "next": body2})
                rec = self.push({"k": "lit", "var": one, "lit": limbs(1), "next": dec})
                d["body"] = self.push({"k": "ifc", "sort": "le", "fst": n["id"], "snd": 0, "thenc": base, "elsec": rec})
            else:
                pre = []
                if self.pressure[1]:
                    for _ in range(self.r.randint(*self.pressure)):
                        pre.append(self.fresh("w", "ext", "i64"))
                body = self.stmt(scope + pre, budget)
                for nv in reversed(pre):
                    body = self.push({"k": "lit", "var": nv, "lit": limbs(self.lit_value()), "next": body})
                d["body"] = body
        defs = [{"name": d["name"], "ctx": d["ctx"], "body": d["body"]} for d in self.defs]
        import json as _j
        clean = _j.loads(_j.dumps({"defs": defs, "types": self.types, "nodes": self.nodes, "max_id": self.next_id}))

        def strip(o):
            if isinstance(o, dict):
                o.pop("taint", None)
                for v_ in o.values():
                    strip(v_)
            elif isinstance(o, list):
                for v_ in o:
                    strip(v_)
        strip(clean)
        return clean


def loop_arg(rng):
    return rng.choice([0, 1, 2, 3])


def gen_args(rng, prog, loopy=True):
    """argument tuples for main: one boundary-ish, one small, one random"""
    n = len(prog["defs"][0]["ctx"])
    small = [rng.randrange(0, 4) for _ in range(n)]
    bnd = [rng.choice([0, 1, -1, (1 << 63) - 1, -(1 << 63), 1 << 32, -(1 << 31)]) for _ in range(n)]
    rnd = [rng.randrange(-(1 << 63), 1 << 63) if rng.random() < 0.5 else rng.randrange(-100, 100) for _ in range(n)]
    out = [small]
    if n:
        out += [bnd, rnd]
    return out


def generate(seed, n, **kw):
    progs = []
    for i in range(n):
        rng = random.Random((seed << 20) + i)
        g = Gen(rng, **kw)
        p = g.gen_program()
        progs.append(("g%d_%d" % (seed, i), p, gen_args(rng, p)))
    return progs
