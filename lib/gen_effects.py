#!/usr/bin/env python3
"""Writes corpus/effects/eo_NN.sc: systematic effect-order programs.  Every argument position of every binary/ternary term
form (operator, call, constructor + match, constructor as a call argument followed by another argument, constructor nested in a
constructor, destructor call, conditional, let) holds a printing computation `(print_i64(k); k)`, and every hole is once more
filled with every form (depth 2).  The sequence of printed numbers is the observable order of evaluation that translation,
focusing, shrinking, linearization and code generation must preserve."""
import itertools, os

DECLS = """data Pair { Tup(a: i64, b: i64) }
data W { Wrap(p: Pair, z: i64) }
data Lst { Nil, Cons(h: i64, t: Lst) }
codata Fn { ap(x: i64): i64 }
def f(x: i64, y: i64): i64 { x - y }
def pick(p: Pair, z: i64): i64 { p.case { Tup(a, b) => (a - b) + z } }
def hd2(l: Lst, z: i64): i64 { l.case { Nil => z, Cons(h, t) => t.case { Nil => h, Cons(h2, t2) => (h - h2) + z } } }
def mk(c: i64): Fn { new { ap(x) => x - c } }
"""
FORMS = {
    "add": "({0}) + ({1})", "sub": "({0}) - ({1})", "call": "f({0}, {1})",
    "ctor": "Tup({0}, {1}).case {{ Tup(a, b) => a - b }}",
    "if": "if ({0}) < ({1}) {{ 1 }} else {{ 2 }}",
    "dtor": "mk({0}).ap({1})",
    "let": "let v: i64 = {0}; ({1}) * v",
    "ctorarg": "pick(Tup({0}, {1}), {2})",
    "nested": "Wrap(Tup({0}, {1}), {2}).case {{ Wrap(p, z) => pick(p, z) }}",
    "list": "hd2(Cons({0}, Cons({1}, Nil)), {2})",
}
import re
HOLES = {k: len(set(re.findall(r"\{(\d)\}", v))) for k, v in FORMS.items()}


class Counter:
    def __init__(self):
        self.k = 0

    def leaf(self):
        self.k += 1
        return "(print_i64(%d); %d)" % (self.k, self.k)


def inst(form, fills, c):
    """fills: per hole None (leaf) or a form name (its holes are leaves); numbering follows source order"""
    parts = []
    for fl in fills:
        if fl is None:
            parts.append(c.leaf())
        else:
            parts.append("(" + FORMS[fl].format(*[c.leaf() for _ in range(HOLES[fl])]) + ")")
    return FORMS[form].format(*parts)


def expressions():
    out = []
    opts = [None] + list(FORMS)
    for form, n in HOLES.items():
        if n == 2:
            combos = itertools.product(opts, repeat=2)
        else:   # one nested hole at a time
            combos = [tuple(None for _ in range(n))] + [tuple(o if i == j else None for i in range(n)) for j in range(n) for o in FORMS]
        for fills in combos:
            out.append((form, fills))
    return out


def main():
    d = os.path.join(os.path.dirname(os.path.abspath(__file__)), "..", "corpus", "effects")
    os.makedirs(d, exist_ok=True)
    for f in os.listdir(d):
        os.remove(os.path.join(d, f))
    ex = expressions()
    per = 16
    for i in range(0, len(ex), per):
        c = Counter()
        body = "".join("println_i64(%s);\n  " % inst(form, fills, c) for form, fills in ex[i:i + per])
        open(os.path.join(d, "eo_%02d.sc" % (i // per)), "w").write(DECLS + "def main(): i64 {\n  " + body + "0\n}\n")
    print(len(ex), "expressions in", (len(ex) + per - 1) // per, "files")


if __name__ == "__main__":
    main()
