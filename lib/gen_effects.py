#!/usr/bin/env python3
"""Writes corpus/effects/eo_NN.sc: systematic effect-order programs.  Every argument position of every binary/ternary term
form (operator, call, constructor + match, constructor as a call argument followed by another argument, constructor nested in a
constructor, destructor call, conditional, let) holds a printing computation `(print_i64(k); k)`, and every hole is once more
filled with every form (depth 2).  The sequence of printed numbers is the observable order of evaluation that translation,
focusing, shrinking, linearization and code generation must preserve."""
import itertools, os

DECLS = """data Pair { Tup(a: i64, b: i64) }
data W { Wrap(p: Pair, z: i64) }
data Lst { Nil, Cons(h: i64, t: Lst) }
codata Fn { ap(x: i64): i64 }
def f(x: i64, y: i64): i64 { x - y }
def pick(p: Pair, z: i64): i64 { p.case { Tup(a, b) => (a - b) + z } }
def hd2(l: Lst, z: i64): i64 { l.case { Nil => z, Cons(h, t) => t.case { Nil => h, Cons(h2, t2) => (h - h2) + z } } }
def mk(c: i64): Fn { new { ap(x) => x - c } }
"""
FORMS = {
    "add": "({0}) + ({1})", "sub": "({0}) - ({1})", "call": "f({0}, {1})",
    "ctor": "Tup({0}, {1}).case {{ Tup(a, b) => a - b }}",
    "if": "if ({0}) < ({1}) {{ 1 }} else {{ 2 }}",
    "dtor": "mk({0}).ap({1})",
    "let": "let v: i64 = {0}; ({1}) * v",
    "ctorarg": "pick(Tup({0}, {1}), {2})",
    "nested": "Wrap(Tup({0}, {1}), {2}).case {{ Wrap(p, z) => pick(p, z) }}",
    "list": "hd2(Cons({0}, Cons({1}, Nil)), {2})",
}
import re
HOLES = {k: len(set(re.findall(r"\{(\d)\}", v))) for k, v in FORMS.items()}


class Counter:
    def __init__(self):
        self.k = 0

    def leaf(self):
        self.k += 1
        return "(print_i64(%d); %d)" % (self.k, self.k)


def inst(form, fills, c):
    """fills: per hole None (leaf) or a form name (its holes are leaves); numbering follows source order"""
    parts = []
    for fl in fills:
        if fl is None:
            parts.append(c.leaf())
        else:
            parts.append("(" + FORMS[fl].format(*[c.leaf() for _ in range(HOLES[fl])]) + ")")
    return FORMS[form].format(*parts)


def expressions():
    out = []
    opts = [None] + list(FORMS)
    for form, n in HOLES.items():
        if n == 2:
            combos = itertools.product(opts, repeat=2)
        else:   # one nested hole at a time
            combos = [tuple(None for _ in range(n))] + [tuple(o if i == j else None for i in range(n)) for j in range(n) for o in FORMS]
        for fills in combos:
            out.append((form, fills))
    return out


# ---- critical pairs: let-bound computations of every kind of type against every kind of use of the bound variable
PAIR_DECLS = """data Lst { Nil, Cons(h: i64, t: Lst) }
codata Fn { ap(x: i64): i64, twice(x: i64): i64 }
def fi(k: i64): i64 { print_i64(k); k + 100 }
def fl(k: i64): Lst { print_i64(k); Cons(k, Nil) }
def ff(k: i64): Fn { print_i64(k); new { ap(x) => x + k, twice(x) => (x + x) + k } }
def usei(x: i64): i64 { x + 1 }
def usel(l: Lst): i64 { l.case { Nil => 0, Cons(h, t) => h } }
def usef(f: Fn): i64 { f.ap(1) }
"""
PAIR_TYPES = {
    "i64": dict(ty="i64", mk="fi", val="5", use="{x} + 1", other="{y} + 1", usev="{x} + n", otherv="{y} + n", twice="({x} + 1) + ({x} + 2)", pas="usei({x})", oval="40"),
    "data": dict(ty="Lst", mk="fl", val="Cons(5, Nil)", use="{x}.case {{ Nil => 0, Cons(h, t) => h }}", other="{y}.case {{ Nil => 0, Cons(h, t) => h }}",
                 usev="{x}.case {{ Nil => n, Cons(h, t) => n }}", otherv="{y}.case {{ Nil => n, Cons(h, t) => n }}",
                 twice="({x}.case {{ Nil => 0, Cons(h, t) => h }}) + ({x}.case {{ Nil => 1, Cons(h2, t2) => h2 + 1 }})", pas="usel({x})", oval="Cons(40, Nil)"),
    "codata": dict(ty="Fn", mk="ff", val="new {{ ap(x) => x, twice(x) => x + x }}", use="{x}.ap(5)", other="{y}.ap(5)", usev="{x}.ap(n)", otherv="{y}.ap(n)",
                   twice="({x}.ap(1)) + ({x}.twice(2))", pas="usef({x})", oval="new {{ ap(x) => x + 40, twice(x) => x }}"),
}


def pair_expressions():
    out = []
    k = 0
    for tn, t in PAIR_TYPES.items():
        prods = ["{mk}({k})", "label a{k} {{ {mk}({k}) }}", "if n == 0 {{ {mk}({k}) }} else {{ {mk}({k1}) }}", "(print_i64({k}); {val})",
                 "label b{k} {{ if n == 0 {{ goto b{k} ({val}) }} else {{ {mk}({k}) }} }}"]
        bodies = ["use", "ignore", "other", "twice", "pas", "usev", "otherv"]
        for pr in prods:
            for bd in bodies:
                k += 2
                p_ = pr.format(mk=t["mk"], k=k, k1=k + 1, val=t["val"].format())
                x, y = "v%d" % k, "w%d" % k
                b_ = "7" if bd == "ignore" else t[bd].format(x=x, y=y)
                out.append("let %s: %s = %s; let %s: %s = %s; %s" % (y, t["ty"], t["oval"].format(), x, t["ty"], p_, b_))
    return out


def main():
    d = os.path.join(os.path.dirname(os.path.abspath(__file__)), "..", "corpus", "effects")
    os.makedirs(d, exist_ok=True)
    for f in os.listdir(d):
        os.remove(os.path.join(d, f))
    ex = expressions()
    per = 16
    for i in range(0, len(ex), per):
        c = Counter()
        body = "".join("println_i64(%s);\n  " % inst(form, fills, c) for form, fills in ex[i:i + per])
        open(os.path.join(d, "eo_%02d.sc" % (i // per)), "w").write(DECLS + "def main(): i64 {\n  " + body + "0\n}\n")
    print(len(ex), "expressions in", (len(ex) + per - 1) // per, "files")
    pe = pair_expressions()
    for i in range(0, len(pe), 15):
        body = "".join("println_i64(%s);\n  " % e for e in pe[i:i + 15])
        open(os.path.join(d, "pairs_%02d.sc" % (i // 15)), "w").write(PAIR_DECLS + "def main(n: i64): i64 {\n  " + body + "0\n}\n")
    print(len(pe), "let-bound critical pairs in", (len(pe) + 14) // 15, "files")


if __name__ == "__main__":
    main()
