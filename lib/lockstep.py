"""Shared driver of the lock-step checks (C06-C10, C13): generate programs, run the real pipeline,
run spec/Refine.tla on the printed assembly of each backend, classify the latched verdicts."""
import json, os, random, sys, time, glob, collections, shutil
from common import *
import gen_axcut, refine
from tok_common import TokError

sys.setrecursionlimit(20000)

EXAMPLES = ["arith", "closure", "either", "list", "midi", "mini", "nonLinear", "quad"]

# which latched failure tags belong to which property (a failure with a foreign tag blocks the case
# for this property and is reported by the property that owns the tag)
TAGS = {
    "C06": {"control", "env", "result", "out", "value", "jump", "undef", "axcut", "callenv"},
    "C07": {"control", "env", "result", "out", "value", "jump", "undef", "axcut", "callenv"},
    "C08": {"control", "env", "result", "out", "value", "jump", "undef", "axcut", "agree"},
    "C09": {"heap", "mem", "leak"},
    "C10": {"footprint", "leak"},
    "C13": {"align", "cc", "undef", "callenv"},
    "C14": {"encode", "asm"},
}

PROFILES = {
    "base": dict(),
    "spill": dict(pressure=(5, 16), budget=(4, 9), ntypes=(1, 2)),
    "objects": dict(field_counts=(2, 3, 4, 5, 6, 7, 8), budget=(5, 12)),
    "printy": dict(pressure=(0, 20), budget=(3, 8), ntypes=(1, 2), max_fields=3),
    "tables": dict(xtor_counts=(4, 5, 6, 8), field_counts=(0, 1, 1, 2), budget=(4, 9), ntypes=(1, 2)),
    "noprint": dict(prints=False, max_params=3, budget=(3, 9)),
    "noprint_spill": dict(prints=False, pressure=(3, 9), max_params=2, budget=(3, 7), ntypes=(1, 2)),
}

CAPACITY_MSGS = ("Out of temporaries", "Out of registers", "not implemented in RISC-V backend",
                 "too many arguments for main", "function calls can use")


def example_cases():
    l = [{"name": w, "kind": "example", "which": w, "linear": True} for w in EXAMPLES]
    args = {w: [[]] for w in EXAMPLES}
    for f in sorted(glob.glob(os.path.join(REPO, "examples", "*", "*.sc"))):
        nm = "ex_" + os.path.basename(f)[:-3]
        l.append({"name": nm, "kind": "fun", "path": f})
        a = os.path.join(os.path.dirname(f), os.path.basename(f)[:-3] + ".args")
        args[nm] = None  # filled after the pipeline knows the arity
    return l, args


def build_batch(workdir, plan, with_examples=True, directed=None, extra=None):
    """plan: list of (profile name, count); directed: list of (name, linear program, argument tuples).
    Returns (artdir, index by name, args by name)."""
    lst, args = ([], {})
    if with_examples:
        lst, args = example_cases()
    for name, p, a in (directed or []):
        lst.append({"name": name, "kind": "axcut", "prog": p, "linear": True})
        args[name] = a
    for case, a in (extra or []):
        lst.append(case)
        args[case["name"]] = a
    s = seed()
    for k, (prof, n) in enumerate(plan):
        for name, p, a in gen_axcut.generate(s * 100 + k, n, **PROFILES[prof]):
            name = "%s_%s" % (prof, name)
            lst.append({"name": name, "kind": "axcut", "prog": p, "linear": False})
            args[name] = a
    os.makedirs(workdir, exist_ok=True)
    lp = os.path.join(workdir, "list.json")
    json.dump(lst, open(lp, "w"))
    art = os.path.join(workdir, "art")
    sccv("pipeline", lp, art, "axcut,axcutlin,x86,a64,rv64")
    sccv("config", art)
    index = {c["name"]: c for c in json.load(open(os.path.join(art, "index.json")))}
    for nm in args:
        if args[nm] is None:
            n = index[nm]["nargs"]
            args[nm] = [[3] * n] if n else [[]]
    return art, index, args


def stage_outcome(entry, stage):
    for s in entry["stages"]:
        if s["stage"] == stage:
            return s
    return None


def run_backend(pid, art, index, args, backend, workdir, maxsteps, nblocks, timeout, strict=False, footprint_k=2, skip_counts=False):
    cases, skipped = [], collections.Counter()
    for nm, al in args.items():
        so = stage_outcome(index[nm], backend)
        if so is None:
            skipped["earlier-stage-failed"] += 1
            continue
        if so["outcome"] != "ok":
            skipped["capacity" if any(m in so["msg"] for m in CAPACITY_MSGS) else "backend-panic"] += 1
            continue
        for a in al:
            cases.append((nm, a))
    # TLC reads the whole batch as one constant: keep every chunk's program file below ~35 MB
    chunks, cur, size = [], [], 0
    byprog = collections.OrderedDict()
    for nm, a in cases:
        byprog.setdefault(nm, []).append(a)
    for nm, al in byprog.items():
        sz = os.path.getsize(os.path.join(art, "%s.%s.asm" % (nm, backend))) * 4 + os.path.getsize(os.path.join(art, nm + ".axcutlin.json"))
        if cur and size + sz > 35_000_000:
            chunks.append(cur)
            cur, size = [], 0
        cur += [(nm, a) for a in al]
        size += sz
    if cur:
        chunks.append(cur)
    merged = None
    for ci, chunk in enumerate(chunks):
        wd = os.path.join(workdir, "tlc-%s-%d" % (backend, ci))
        env, n = refine.make_inputs(art, wd, backend, chunk, maxsteps=maxsteps, nblocks=nblocks, footprint_k=footprint_k, skip_counts=skip_counts)
        cfgp = env["SCCV_CFG"]
        cfg = json.load(open(cfgp))
        cfg["strict_encode"] = strict
        json.dump(cfg, open(cfgp, "w"))
        r = tlc_batch("Refine", "Refine.cfg", wd, env, n, timeout=timeout, xmx="12g")
        for f in glob.glob(os.path.join(wd, "*.progs.json")):
            os.remove(f)
        if merged is None:
            merged = r
        else:
            merged["results"] += r["results"]
            for k_ in ("states", "distinct", "wall"):
                merged[k_] += r[k_]
    r = merged if merged is not None else {"results": [], "states": 0, "distinct": 0, "wall": 0}
    return r, cases, skipped


def classify(pid, backend, r, art, own=None):
    """-> (violations, stats)"""
    own = own or TAGS[pid]
    stats = collections.Counter()
    viols = []
    for x in r["results"]:
        st = x["status"]
        if st == "fail":
            if x["tag"] == "tool":
                raise ToolError("spec cannot execute an instruction: %s (%s)" % (x["why"], x["case"]))
            if x["tag"] in own:
                stats["fail"] += 1
                name, _, a = x["case"].partition("@")
                sig = "%s:%s:%s:%s" % (pid, backend, x["tag"], normalize_why(x["why"]))
                payload = {"property": pid, "backend": backend, "case": x["case"], "result": x, "signature": sig}
                for ext in ("axcut.json", "axcutlin.json", backend + ".asm"):
                    p = os.path.join(art, "%s.%s" % (name, ext))
                    if os.path.exists(p):
                        payload[ext] = open(p).read() if ext.endswith(".asm") else json.load(open(p))
                rp = save_replay(pid, backend + "-" + x["case"], payload)
                viols.append({"signature": sig, "what": "%s on %s: %s" % (x["case"], backend, x["why"]), "replay": rp})
            else:
                stats["blocked:" + x["tag"]] += 1
        else:
            stats[st] += 1
    return viols, stats


def normalize_why(why):
    import re
    w = re.sub(r"\s*\(at \w+\)", "", why)
    w = re.sub(r"[^A-Za-z0-9]+", "-", w).strip("-").lower()
    return w[:80]


def coverage_of(results):
    cov = collections.Counter()
    for x in results:
        c = x.get("cov") or {}
        for k, v in c.items():
            cov["max_" + k] = max(cov["max_" + k], v)
        if c.get("maxdef", 0) > 0:
            cov["cases_with_deferred_blocks"] += 1
        if c.get("maxlin", 0) > 1:
            cov["cases_with_released_blocks"] += 1
        if c.get("maxshared", 0) > 0:
            cov["cases_with_shared_blocks"] += 1
        cov["marks"] += x.get("marks", 0)
        cov["isa_steps"] += x.get("steps", 0)
    return dict(cov)


def lockstep_check(pid, tier, backends, plan, maxsteps=6000, nblocks=96, timeout=1500, level="translation_validation",
                   assumptions=None, extra_rule="", directed=None, with_examples=True, post=None, extra_cov=None,
                   extra=None, footprint_k=2, extra_viols=None, skip_counts=False):
    t0 = time.time()
    build_harness()
    work = os.path.join(WORK, pid)
    for d in glob.glob(os.path.join(work, "*")):
        if os.path.basename(d) != "mc_heap":
            shutil.rmtree(d, ignore_errors=True) if os.path.isdir(d) else os.remove(d)
    os.makedirs(work, exist_ok=True)
    art, index, args = build_batch(work, plan, with_examples=with_examples, directed=directed, extra=extra)
    allv, allstats, states, trans, nprog, ncases = [], {}, 0, 0, 0, 0
    samples, cov = [], {}
    for be in backends:
        r, cases, skipped = run_backend(pid, art, index, args, be, work, maxsteps, nblocks, timeout, footprint_k=footprint_k, skip_counts=skip_counts)
        v, stats = classify(pid, be, r, art)
        for k, n in skipped.items():
            stats["skipped:" + k] += n
        allv += v
        allstats[be] = dict(stats)
        states += r["distinct"]
        trans += r["states"]
        nprog += len({c[0] for c in cases})
        ncases += len(cases)
        cov[be] = coverage_of(r["results"])
        done = [x for x in r["results"] if x["status"] == "done"]
        for x in sorted(done, key=lambda x: -x["marks"])[:2]:
            samples.append({"backend": be, "case": x["case"], "isa_steps": x["steps"], "statement_markers": x["marks"],
                            "prints": x["nout"], "frontier": x["F"], "peak_reachable": x["peak"]})
        log("[%s] %s: %s  (%d states, %.0fs)" % (pid, be, dict(stats), r["distinct"], r["wall"]))
        json.dump(r["results"], open(os.path.join(work, "results-%s.json" % be), "w"))
    if post:
        allv += post(art, index, args, work, allstats)
    allv += list(extra_viols or [])
    new = triage(pid, allv)
    coverage = {"programs": nprog, "disagreements_checked": ncases, "samples": samples, "states": states,
                "transitions": trans, "traces_validated_against_impl": ncases, "per_backend": allstats,
                "feature_coverage": cov, "directed_programs": len(directed or []),
                "rule": "generated non-linear AxCut programs (profiles %s, seed %d) linearised and compiled by the real "
                        "pipeline plus the repository's examples; every (program, argument tuple) is one lock-step run; %s"
                        % (plan, seed(), extra_rule)}
    coverage.update(extra_cov or {})
    write_evidence(pid, tier, level, coverage, time.time() - t0, len(allv),
                   assumptions=assumptions or ["ISA semantics as written in spec/X86.tla, A64.tla, RV64.tla",
                                               "tokenizers lib/tok_*.py read the printed text faithfully"])
    return 1 if new else 0
