"""Orchestration shared by all checks: build the harness from /repo's working tree, run TLC,
parse RESULT lines, write evidence, match known findings."""
import json, os, re, subprocess, sys, time, hashlib, shutil

VERIF = os.path.dirname(os.path.dirname(os.path.abspath(__file__)))
REPO = os.environ.get("SCC_REPO", "/repo")
SPEC = os.path.join(VERIF, "spec")
WORK = os.path.join(VERIF, "work")
REPLAYS = os.path.join(VERIF, "replays")
EVID = os.path.join(VERIF, "evidence")
HARNESS = os.path.join(VERIF, "harness")
SCCV = os.path.join(HARNESS, "target", "release", "sccv")
TLA_CP = "/opt/veriftools/tla/tla2tools.jar:/opt/veriftools/tla/CommunityModules-deps.jar"


class ToolError(Exception):
    pass


def log(*a):
    print(*a, file=sys.stderr, flush=True)


def seed():
    try:
        return int(os.environ.get("VERIF_SEED", "1"))
    except ValueError:
        return 1


def build_harness():
    """cargo build --release in /verif/harness (path deps on /repo => always the current tree)."""
    t = time.time()
    env = dict(os.environ, CARGO_NET_OFFLINE="true")
    lock = None
    if not os.environ.get("SCCV_REPO_LOCK_HELD"):   # selftest/try_seed.sh holds this lock while a seeded change is applied to /repo
        try:
            import fcntl
            lock = open(os.path.expanduser("~/.sccv_repo.lock"), "w")
            fcntl.flock(lock, fcntl.LOCK_EX)
        except OSError:
            lock = None
    try:
        r = subprocess.run(["cargo", "build", "--release", "--offline"], cwd=HARNESS, env=env,
                           stdout=subprocess.PIPE, stderr=subprocess.STDOUT, text=True)
    finally:
        if lock:
            lock.close()
    if r.returncode != 0:
        raise ToolError("harness build failed:\n" + r.stdout[-4000:])
    log("[build] harness built in %.1fs" % (time.time() - t))


def sccv(*args, timeout=600, check=True):
    r = subprocess.run([SCCV] + list(args), stdout=subprocess.PIPE, stderr=subprocess.PIPE, text=True, timeout=timeout)
    if check and r.returncode != 0:
        raise ToolError("sccv %s failed (%d): %s" % (" ".join(args[:2]), r.returncode, r.stderr[-2000:]))
    return r


def fresh_dir(*parts):
    d = os.path.join(*parts)
    shutil.rmtree(d, ignore_errors=True)
    os.makedirs(d, exist_ok=True)
    return d


FINAL = re.compile(r"^(\d+) states generated, (\d+) distinct states found")


def run_tlc(module, cfg, workdir, env=None, workers=16, timeout=1800, xmx="8g", simulate=None, extra=None):
    """Run TLC on spec/<module>.tla with spec/<cfg>; returns dict with RESULT records and state counts.
    A TLC error, a timeout or a missing final line is a ToolError (never a violation)."""
    os.makedirs(workdir, exist_ok=True)
    meta = os.path.join(workdir, "tlc-meta")
    shutil.rmtree(meta, ignore_errors=True)
    e = dict(os.environ)
    e.update(env or {})
    e["JAVA_TOOL_OPTIONS"] = "-Xss512m"
    jtmp = os.path.join(workdir, "jtmp")
    os.makedirs(jtmp, exist_ok=True)
    cmd = ["java", "-XX:+UseParallelGC", "-Xmx" + xmx, "-Djava.io.tmpdir=" + jtmp, "-cp", TLA_CP, "tlc2.TLC",
           "-workers", str(workers), "-metadir", meta, "-cleanup", "-noGenerateSpecTE", "-nowarning",
           "-config", os.path.join(SPEC, cfg)]
    if simulate:
        cmd += ["-simulate", simulate]
    cmd += list(extra or [])
    cmd.append(os.path.join(SPEC, module + ".tla"))
    t = time.time()
    outpath = os.path.join(workdir, "tlc-%s.out" % module)
    with open(outpath, "w") as f:
        try:
            r = subprocess.run(cmd, cwd=SPEC, env=e, stdout=f, stderr=subprocess.STDOUT, timeout=timeout)
        except subprocess.TimeoutExpired:
            raise ToolError("TLC timed out after %ds on %s (%s)" % (timeout, module, outpath))
    wall = time.time() - t
    shutil.rmtree(meta, ignore_errors=True)
    shutil.rmtree(jtmp, ignore_errors=True)
    results, states, distinct, printed = [], None, None, []
    errors = []
    with open(outpath) as f:
        for line in f:
            line = line.rstrip("\n")
            s = line.strip()
            if s.startswith('"RESULT '):
                body = json.loads(s)  # a TLA+ string literal is a JSON string literal here
                results.append(json.loads(body[len("RESULT "):]))
            elif s.startswith('"PRINT '):
                printed.append(json.loads(s)[len("PRINT "):])
            m = FINAL.match(s)
            if m:
                states, distinct = int(m.group(1)), int(m.group(2))
            if s.startswith("Error:") or "Exception" in s:
                errors.append(s)
    return {"results": results, "states": states, "distinct": distinct, "wall": wall, "rc": r.returncode,
            "out": outpath, "errors": errors, "printed": printed}


def tlc_batch(module, cfg, workdir, env, expect, **kw):
    """Batch protocol: exactly `expect` RESULT lines, else tool error."""
    r = run_tlc(module, cfg, workdir, env, **kw)
    if r["states"] is None or len(r["results"]) != expect:
        tail = subprocess.run(["tail", "-n", "25", r["out"]], stdout=subprocess.PIPE, text=True).stdout
        raise ToolError("TLC run of %s incomplete: %d RESULT lines for %d cases, rc=%s\n%s"
                        % (module, len(r["results"]), expect, r["rc"], tail))
    return r


def tlc_batch_chunked(module, cfg, workdir, items, envkey="SCCV_PROGS", max_bytes=30_000_000, extra_env=None, **kw):
    """items: list of JSON-serialisable cases, one RESULT line each.  TLC reads its input as one constant and stalls beyond
    ~50 MB, so the items are split into runs of at most max_bytes of JSON; the merged result has the same shape as tlc_batch's."""
    chunks, cur, size = [], [], 0
    for it in items:
        n = len(json.dumps(it))
        if cur and size + n > max_bytes:
            chunks.append(cur)
            cur, size = [], 0
        cur.append(it)
        size += n
    if cur:
        chunks.append(cur)
    merged = None
    for i, ch in enumerate(chunks):
        d = os.path.join(workdir, "chunk%d" % i)
        os.makedirs(d, exist_ok=True)
        fp = os.path.join(d, "items.json")
        json.dump(ch, open(fp, "w"))
        env = dict(extra_env or {})
        env[envkey] = fp
        r = tlc_batch(module, cfg, d, env, len(ch), **kw)
        if merged is None:
            merged = r
        else:
            merged["results"] += r["results"]
            for k_ in ("states", "distinct", "wall"):
                merged[k_] = (merged[k_] or 0) + (r[k_] or 0)
    if merged is None:
        raise ToolError("tlc_batch_chunked: no items")
    return merged


# ---------------------------------------------------------------- AxCut program indexing for the specs
def index_axcut(prog):
    prog = dict(prog)
    prog["defidx"] = {d["name"]: i + 1 for i, d in enumerate(prog["defs"])}
    prog["xpos"] = {t["name"]: {x["name"]: i for i, x in enumerate(t["xtors"])} for t in prog["types"]}
    # the Json module cannot read {} as a record with an empty domain reliably: keep a dummy key
    if not prog["xpos"]:
        prog["xpos"] = {"_none": {"_none": 0}}
    for t in list(prog["xpos"]):
        if not prog["xpos"][t]:
            prog["xpos"][t] = {"_none": 0}
    return prog


def labels_of(code):
    labels, dups = {}, []
    for i, ins in enumerate(code, 1):
        if ins["op"] == "label":
            if ins["l"] in labels:
                dups.append(ins["l"])
            else:
                labels[ins["l"]] = i
    return labels, dups


# ---------------------------------------------------------------- evidence / findings
def write_evidence(pid, tier, level, coverage, wall, violations, assumptions=None, extra=None):
    os.makedirs(EVID, exist_ok=True)
    ev = {"property_id": pid, "tier": tier, "seed": seed(), "level": level, "coverage": coverage,
          "assumptions": assumptions or [], "wall_s": round(wall, 2), "violations": violations}
    if extra:
        ev.update(extra)
    # selftest/try_seed.sh runs the checks against a deliberately broken tree: those runs go to a scratch directory
    target = os.path.join(WORK, "seeded-evidence") if os.environ.get("SCCV_SEEDED_RUN") else EVID
    os.makedirs(target, exist_ok=True)
    with open(os.path.join(target, pid + ".json"), "w") as f:
        json.dump(ev, f, indent=1, sort_keys=True)
    return ev


def load_findings():
    p = os.path.join(VERIF, "known_findings.json")
    if not os.path.exists(p):
        return []
    return json.load(open(p)).get("findings", [])


def triage(pid, violations):
    """violations: list of dicts with 'signature', 'what', 'replay'.  Prints KNOWN-FINDING / VIOLATION lines.
    Returns the number of unlisted violations."""
    known = [f for f in load_findings() if f.get("status") == "open" and pid in f.get("properties", [])]
    seen_known, new = {}, []
    for v in violations:
        k = next((f for f in known if re.fullmatch(f["signature"], v["signature"])), None)
        if k:
            seen_known.setdefault(k["signature"], (k, v))
        else:
            new.append(v)
    for sig, (k, v) in sorted(seen_known.items()):
        print("KNOWN-FINDING: property=%s %s %s" % (pid, k["id"], k["what"]))
    shown = set()
    for v in new:
        if v["signature"] in shown:
            continue
        shown.add(v["signature"])
        print("VIOLATION property=%s replay=%s signature=%s %s" % (pid, v["replay"], v["signature"], v.get("what", "")))
    sys.stdout.flush()
    return len(new)


def save_replay(pid, name, payload):
    d = os.path.join(REPLAYS, pid)
    os.makedirs(d, exist_ok=True)
    p = os.path.join(d, re.sub(r"[^\w.@,+-]", "_", name)[:120] + ".json")
    with open(p, "w") as f:
        json.dump(payload, f, indent=1)
    return p
