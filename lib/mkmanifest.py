#!/usr/bin/env python3
"""Regenerates /verif/MANIFEST.json from the table below (single source of truth for what is claimed)."""
import json, os, subprocess

VERIF = os.path.dirname(os.path.dirname(os.path.abspath(__file__)))

LOCK = ("TLC runs spec/Refine.tla: the AxCut value machine (spec/AxCutMachine.tla) in lock-step with the ISA machine "
        "(spec/X86.tla / A64.tla / RV64.tla) executing the tokenised printed assembly of the real backend; "
        "synchronisation at the cfg(scc_verif) @mark comments")

CHECKS = {
    "C06": dict(level="translation_validation", design="§6 C06, §3.3",
                text="Per program and argument tuple TLC executes the real x86-64 text instruction by instruction and checks at "
                     "every statement boundary that control, every live variable, the print sequence and the result agree with "
                     "the AxCut machine. Exhaustive per run (every step, every marker); programs are generated (random "
                     "non-linear AxCut through the real linearizer, plus directed operand/target placements).",
                note="Trusts spec/X86.tla as the meaning of the instruction subset (cross-checked natively by C01), the "
                     "tokenizer lib/tok_x86.py and the AxCut machine of DESIGN Appendix A.3.",
                technique="TLA+ lock-step refinement product checked by TLC on real compiler output (translation validation)"),
    "C07": dict(level="translation_validation", design="§6 C07, §3.3",
                text="As C06 for AArch64: the printed GNU-syntax text of axcut2aarch64 is executed on spec/A64.tla in lock-step "
                     "with the AxCut machine, including MOVZ/MOVN/MOVK halfword semantics, spills beyond 13 variables and the "
                     "external-call model.",
                note="No AArch64 emulator or processor is available: spec/A64.tla (written from the architecture manual) is the "
                     "only executor and is trusted; cross-backend agreement (C08) reduces that trust, and C14 checks its operand "
                     "ranges against LLVM's AArch64 assembler.",
                technique="TLA+ lock-step refinement product checked by TLC on real compiler output (translation validation)"),
    "C08": dict(level="translation_validation", design="§6 C08",
                text="RISC-V pseudo-assembly executed on spec/RV64.tla in lock-step with the AxCut machine for print-free programs "
                     "with at most 14 live variables, plus BackendsAgree: the three products must end with equal results.",
                note="spec/RV64.tla reads LW/SW as 64-bit moves and starts at the first label as the property states; trusted as "
                     "written.",
                technique="TLA+ lock-step refinement product + three-way result comparison, TLC"),
    "C09": dict(level="model_checking", design="§6 C09, Appendix A.4",
                text="HeapInv (partition of blocks into reachable / linear free / deferred / waiting, exact reference counts, no "
                     "reference into a free list, nothing written beyond the frontier) is evaluated by TLC on the concrete heap "
                     "words and registers of the ISA machines at every statement marker of every run on all three backends; "
                     "MemInBounds at every instruction. The allocator design model spec/AxCutHeap.tla is model-checked for the same invariant "
                     "and its let/dup/drop/switch histories (BFS sample and deep random ones, also behind padding variables that "
                     "spill every block pointer) are replayed as linear programs through the real backends; explicit-substitution "
                     "families share and erase objects on both sides of each spill boundary.",
                note="Per-run exhaustive, program space sampled (allocation-heavy generated programs, loops corpus, replayed histories).",
                technique="TLA+ state invariant over concrete heap of ISA machine in lock-step product, TLC"),
    "C10": dict(level="model_checking", design="§6 C10",
                text="Footprint invariant frontier <= peak reachable + K (K = 2) at every statement marker on all backends, plus "
                     "build-and-drop loops with n, 4n, 16n iterations that must end with identical frontiers; the rule 'fresh memory only "
                     "when both free lists are empty' (if the frontier moved since the previous marker, at most one block is on the "
                     "lists); replay of the allocator design model's histories (spec/AxCutHeap.tla, Footprint model-checked).",
                note="K fixed by the reasoning in DESIGN §6 C10; peak sampled at statement boundaries.",
                technique="TLA+ history-variable invariant in lock-step product, TLC"),
    "C11": dict(level="model_checking", design="§6 C11",
                text="Every map from m new to n old variables (quick m,n <= 3 exhaustive over kinds and 5 window offsets, plus random "
                     "up to 8x8) is compiled by the real backend as a single substitute statement and executed in lock-step: the "
                     "marker after it checks the simultaneous assignment on every variable and exact reference counts.",
                note="Object variables are one-field boxes; larger objects are covered by C09's batches.",
                technique="exhaustive enumeration of substitutions replayed into the real backends, judged by the TLA+ product"),
    "C13": dict(level="model_checking", design="§6 C13, §3.3 external-call model",
                text="The ISA machines model a call of the print runtime by checking stack alignment, then destroying every "
                     "caller-saved register, the flags, the link register and all stack below SP; any later use of a destroyed "
                     "value, a misaligned SP (also at every SP-based access on AArch64), an unrestored callee-saved register or "
                     "SP at ret is latched. Directed grid: 0..21 live variables of mixed kinds x 0..7 entry arguments.",
                note="Calling conventions (SysV AMD64, AAPCS64) as encoded in spec/X86.tla and spec/A64.tla.",
                technique="TLA+ ISA machine with adversarial external-call model, TLC"),
}

PENDING = {
    "C01": "machinery under construction (native run + Fun machine); not claimed yet",
    "C02": "machinery under construction (Fun and Core machines); not claimed yet",
    "C03": "machinery under construction (Core machine, focusing); not claimed yet",
    "C04": "machinery under construction (Core vs AxCut machines); not claimed yet",
    "C05": "machinery under construction (AxCut typing walker); not claimed yet",
    "C12": "machinery under construction (typing walkers, Pipeline spec); not claimed yet",
    "C14": "machinery under construction (AsmWF spec, GNU as cross-check); not claimed yet",
    "C15": "machinery under construction (FunTyping spec); not claimed yet",
    "C16": "machinery under construction (FunGrammar spec); not claimed yet",
    "C17": "machinery under construction (Pipeline spec); not claimed yet",
    "C18": "machinery under construction (Pipeline / FunGrammar mutations); not claimed yet",
    "C19": "machinery under construction (walker size measure); not claimed yet",
    "C20": "machinery under construction (Runtime spec); not claimed yet",
}

CHECKS.update({
    "C01": dict(level="translation_validation", design="§6 C01",
                text="For generated well-typed Fun programs and argument tuples the source semantics (spec/FunMachine.tla) composed with "
                     "the runtime contract (spec/Runtime.tla) predicts stdout bytes and exit status inside TLC; the observation is a real "
                     "process built from the real pipeline's x86-64 text with GNU as, the repository's C driver and io.c.",
                note="NASM->GAS transliteration touches only syntax; effects in argument positions are not generated (their order is not "
                     "fixed by the statement).",
                technique="TLA+ source machine + runtime contract evaluated by TLC against recorded native executions"),
    "C02": dict(level="translation_validation", design="§6 C02",
                text="Fun machine vs Core machine on compile_prog's real output for every (program, input), plus the all-paths typing "
                     "walk of the Core output; heavy name reuse with alpha-renamed twins to separate name capture from other defects.",
                note="Semantics fixed in DESIGN Appendix A.1/A.2; effects only in sequenced positions.",
                technique="TLA+ observational-equivalence product (spec/Equiv.tla) + reachability walker (spec/CoreTyping.tla), TLC"),
    "C03": dict(level="translation_validation", design="§6 C03",
                text="Core machine with dynamic focusing on the unfocused program vs the same machine on the uniquified and the focused "
                     "program (random programs with effects anywhere plus the systematic effect-order corpus: a printing computation in every "
                     "argument position of every term form, nested to depth 2); walker in mode unique checks distinct binders along every path, "
                     "ids non-zero and <= max_id.",
                note="Hypothesis (well-typed Core input) is checked by the walker; failing inputs are blamed on C02.",
                technique="TLA+ observational-equivalence product + reachability walker, TLC"),
    "C04": dict(level="translation_validation", design="§6 C04",
                text="Core machine on the focused program vs AxCut machine (named mode) on shrink_prog's real output; AxCut typing walk "
                     "(chirality collapse, clause order, lifted definitions).",
                note="Hypothesis (well-typed focused Core) checked by the walker.",
                technique="TLA+ observational-equivalence product + reachability walker, TLC"),
    "C05": dict(level="model_checking", design="§6 C05",
                text="All-paths walk of the linearised program with the ordered, linear discipline (ContextExact per statement kind) - "
                     "exhaustive per program - and AxCut machine named mode vs positional mode observationally.",
                note="Program space sampled (pipeline outputs and directly generated non-linear AxCut).",
                technique="TLA+ reachability walker (spec/AxCutTyping.tla, mode linear) + equivalence product, TLC"),
    "C12": dict(level="model_checking", design="§6 C12",
                text="Stage-event traces of every generated and capacity-boundary program validated by spec/TracePipeline.tla (panic is in "
                     "no outcome alphabet, capacity only beyond the documented limits); typing walkers on Core, uniquified, focused "
                     "Core, AxCut and linear AxCut artifacts of every accepted program.",
                note="Capacity predicates are the documented limits as written in spec/PipelineDefs.tla.",
                technique="TLA+ trace validation + reachability walkers, TLC"),
    "C17": dict(level="model_checking", design="§6 C17",
                text="TLC enumerates all request histories (length 3 quick / 4 thorough) of the abstract Driver model spec/Pipeline.tla; the "
                     "harness replays each on a fresh real Driver, samples in further processes (fresh hash seeds); spec/TracePipeline.tla "
                     "checks Functional: every content hash equals the reference (assembly modulo label renaming).",
                note="2 sources (one with 11 type instances), 8 printable stages.",
                technique="TLA+ model enumeration replayed into the implementation + trace validation, TLC"),
    "C20": dict(level="model_checking", design="§6 C20",
                text="io.c's print primitives called stand-alone on boundary/power/random i64 values, native one-liners with 0..5 "
                     "parameters and random boundary tuples, wrong argument counts - all judged inside TLC by spec/Runtime.tla "
                     "(RenderCall, ExitStatus, ArityMessage); argument shuffle of into_routine on the A64 (0..7) and X86 (0..5) machines.",
                note="Trailing NUL byte of the arity message is tolerated (reported in evidence).",
                technique="TLA+ runtime contract evaluated by TLC on recorded observations + ISA machine for the shuffle"),
})
for k in list(PENDING):
    if k in CHECKS:
        del PENDING[k]

CHECKS.update({
    "C14": dict(level="model_checking", design="§6 C14",
                text="Every emitted file of every generated program, on all three backends, is judged statically by spec/AsmWF.tla: "
                     "LabelsUnique, TargetsDefined, NoSymbolClash, AllEncodable (operand ranges of every printed form), TableStride. "
                     "x86-64 files are additionally assembled by GNU as and AArch64 files by LLVM's integrated assembler (clang "
                     "--target=aarch64-linux-gnu), whose verdicts must agree with the specification in both directions. Directed "
                     "families: types with 40..2100 xtors, type names / nested instances of 20..130 characters. Adaptive adversarial naming: user definitions/types named exactly like generated labels, appended or "
                     "obtained by renaming a helper definition (which leaves the numbering of generated names unchanged).",
                note="The RISC-V text is the backend's own notation that no assembler reads: judged by the specification only.",
                technique="TLA+ static well-formedness predicates evaluated by TLC on tokenised real output + GNU as / LLVM assembler cross-check"),
    "C15": dict(level="model_checking", design="§6 C15",
                text="Three-way agreement, judged in TLC: construction label = verdict of the declarative typing relation "
                     "spec/FunTyping.tla (else tool error) = verdict of the real type checker (else violation), on well-typed-by-"
                     "construction programs, every single certainly-ill-typed edit of them (21 classes x sites) and the repository's "
                     "success/fail suites.",
                note="spec/FunTyping.tla is an independent transcription of the typing rules over the parsed syntax tree.",
                technique="self-contained function transcribed into TLA+ (typing relation) used as oracle for model-based tests, TLC"),
    "C16": dict(level="exploration", design="§6 C16",
                text="Token sequences of every term form nested in every operand position (depth 2) are derived by TLC from the "
                     "generative grammar spec/FunGrammar.tla (which models the lexer's zero-test fusion); each is rendered by the real "
                     "printer at sampled/all width x indent pairs, reparsed, compared as trees, printed again; in-place mode of the real "
                     "binary on scratch copies; generated programs (nested type instances) and a signature family (binding form x type "
                     "nesting x name length x position); records judged by spec/TraceFmt.tla.",
                note="The layout algorithm of the pretty crate is not modelled, only its effect (tree, fixpoint).",
                technique="TLA+ generative grammar enumerated by TLC, replayed into the real parser/printer, records validated in TLC"),
    "C18": dict(level="exploration", design="§6 C18",
                text="All single (thorough: windowed double) token mutations of three base programs are enumerated by TLC from "
                     "spec/Mutate.tla; random byte-level edits, single ill-typed edits of generated programs (the edit classes of C15), "
                     "extreme shapes and non-UTF-8 files are added; every replay's stage-event "
                     "trace is validated by spec/TracePipeline.tla, where a panic is in no outcome alphabet; accepted programs with a "
                     "valid main continue through all backends.",
                note="The byte-level space is sampled, not enumerated.",
                technique="TLA+ mutation model enumerated by TLC + trace validation against the pipeline specification"),
    "C19": dict(level="exploration", design="§6 C19",
                text="70 scalable families (7 kinds of branch point x 10 positions of the rest of the program, sequenced and nested) at depth "
                     "4, 8, 12, 16 through the real pipeline; spec/Sizes.tla evaluates Growth "
                     "(s(16) <= 10 s(8), s(12) <= 40 s(4)) and Quadratic on the measured node / instruction counts of every stage.",
                note="Weakest claim: TLC only evaluates the bound on measurements.",
                technique="measurement of real artifacts judged by a TLA+ bound predicate in TLC"),
})
for k in list(PENDING):
    if k in CHECKS:
        del PENDING[k]


def main():
    commits = subprocess.run(["git", "-C", "/repo", "log", "--format=%h %s"], stdout=subprocess.PIPE, text=True).stdout.splitlines()
    hooks = [c.split()[0] for c in commits if c.split(" ", 1)[1].startswith("verif hook")]
    checks = []
    for pid in sorted(CHECKS):
        c = CHECKS[pid]
        checks.append({
            "property_id": pid,
            "quick_cmd": "./check %s --tier quick" % pid,
            "thorough_cmd": "./check %s --tier thorough" % pid,
            "evidence_file": "/verif/evidence/%s.json" % pid,
            "replay_cmd_template": "./check %s --replay {path}" % pid,
            "engine": c.get("engine", "tlc"),
            "level_claimed": {"category": c["level"], "text": c["text"], "design_ref": c["design"]},
            "level_note": c["note"],
            "technique": c["technique"],
        })
    m = {
        "version": 1,
        "setup_cmd": "./setup.sh",
        "hooks": {
            "guard": "cfg(scc_verif)",
            "enable": "RUSTFLAGS='--cfg scc_verif' via /verif/harness/.cargo/config.toml (the harness has path dependencies on /repo/lang/*)",
            "baseline_off_cmd": "cd /repo && cargo test --workspace --no-fail-fast --offline",
            "source_commits": hooks,
            "add_only": True,
        },
        "engines": [
            {"name": "tlc", "path": "/verif/spec", "serves_properties": sorted(CHECKS),
             "kind_free_text": "TLA+ specifications model-checked / executed by TLC 1.8; conformance harness /verif/harness (Rust, links the real compiler crates)"},
        ],
        "checks": checks,
        "not_applicable": [{"property_id": p, "reason": r} for p, r in sorted(PENDING.items()) if p not in CHECKS],
        "notes": "See DESIGN.md. Exit codes: 0 held / known findings only; 1 VIOLATION; 2 tool error.",
    }
    json.dump(m, open(os.path.join(VERIF, "MANIFEST.json"), "w"), indent=1)
    print("MANIFEST.json: %d checks, %d not claimed" % (len(checks), len(m["not_applicable"])))


if __name__ == "__main__":
    main()
