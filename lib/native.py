"""Native x86-64 path for C01/C14/C20: NASM-syntax text -> GNU as (syntax-only transliteration), linked with the
repository's own C driver (instantiated by the real generate_c_driver) and io.c, executed as a real process."""
import os, re, subprocess, json, concurrent.futures
from common import *


def nasm_to_gas(text, trace=False):
    """trace: call the register-dumping routine lib/hwtrace/mark.S at every statement marker"""
    out = [".intel_syntax noprefix"]
    for line in text.split("\n"):
        code, sep, com = line.partition(";")
        c = code.strip()
        tail = ("  # " + com.strip()) if sep else ""
        if not c:
            out.append(tail.strip())
            if trace and com.strip().startswith("@mark"):
                out.append("    call __sccv_mark")
            continue
        if c.startswith("section .note.GNU-stack"):
            out.append('.section .note.GNU-stack,"",@progbits')
            continue
        if c == "section .text":
            out.append(".text")
            continue
        m = re.match(r"^(extern|global)\s+(\S+)$", c)
        if m:
            out.append((".extern " if m.group(1) == "extern" else ".globl ") + m.group(2))
            continue
        if c.endswith(":"):
            out.append(c + tail)
            continue
        c = re.sub(r"\bqword\s*\[", "qword ptr [", c)
        c = re.sub(r"\[\s*rel\s+(\w+)\s*\]", r"[rip + \1]", c)
        c = re.sub(r"^jmp near\s+", "{disp32} jmp ", c)
        out.append("    " + c + tail)
    return "\n".join(out) + "\n"


class Native:
    def __init__(self, workdir, maxargs=5):
        self.dir = os.path.join(workdir, "native")
        os.makedirs(self.dir, exist_ok=True)
        r = sccv("cdriver", self.dir, str(maxargs))
        info = json.loads(r.stdout)
        self.drivers = {d["nargs"]: d["path"] for d in info["drivers"]}
        self.io = info["io"]
        self.ioobj = os.path.join(self.dir, "io.o")
        r = subprocess.run(["gcc", "-c", "-o", self.ioobj, self.io], stdout=subprocess.PIPE, stderr=subprocess.STDOUT, text=True)
        if r.returncode != 0:
            raise ToolError("gcc cannot compile io.c: " + r.stdout)
        self.drvobj = {}
        for n, p in self.drivers.items():
            o = os.path.join(self.dir, "driver%d.o" % n)
            r = subprocess.run(["gcc", "-c", "-o", o, p], stdout=subprocess.PIPE, stderr=subprocess.STDOUT, text=True)
            if r.returncode != 0:
                raise ToolError("gcc cannot compile the C driver: " + r.stdout)
            self.drvobj[n] = o

    def assemble(self, name, asm_text, trace=False):
        """-> (object path or None, assembler diagnostics)"""
        s = os.path.join(self.dir, name + ".s")
        o = os.path.join(self.dir, name + ".o")
        open(s, "w").write(nasm_to_gas(asm_text, trace))
        r = subprocess.run(["as", "--64", "-o", o, s], stdout=subprocess.PIPE, stderr=subprocess.STDOUT, text=True)
        if r.returncode != 0:
            return None, r.stdout
        return o, r.stdout

    A64_AS = ["clang", "--target=aarch64-linux-gnu", "-c", "-x", "assembler"]

    def a64_available(self):
        """clang's integrated assembler has an AArch64 target in this sandbox (no GNU cross-binutils are installed)"""
        if not hasattr(self, "_a64"):
            t = os.path.join(self.dir, "probe_a64.s")
            open(t, "w").write("    ADD X1, X1, 8\n    RET\n")
            try:
                self._a64 = subprocess.run(self.A64_AS + [t, "-o", os.devnull], stdout=subprocess.PIPE, stderr=subprocess.STDOUT).returncode == 0
            except OSError:
                self._a64 = False
        return self._a64

    def assemble_a64(self, name, asm_text):
        """-> (accepted?, diagnostics): the emitted AArch64 text is GNU syntax as it stands"""
        s = os.path.join(self.dir, name + ".a64.s")
        open(s, "w").write(asm_text)
        r = subprocess.run(self.A64_AS + [s, "-o", os.devnull], stdout=subprocess.PIPE, stderr=subprocess.STDOUT, text=True)
        os.unlink(s)
        return r.returncode == 0, r.stdout

    def link(self, name, obj, nargs, extra=()):
        b = os.path.join(self.dir, name + ".bin")
        if nargs not in self.drvobj:
            return None, "no C driver for %d arguments" % nargs
        r = subprocess.run(["gcc", "-no-pie", "-o", b, self.drvobj[nargs], self.ioobj, obj] + list(extra), stdout=subprocess.PIPE, stderr=subprocess.STDOUT, text=True)
        if r.returncode != 0:
            # retry as PIE (the repository's own command line does not pass -no-pie)
            r = subprocess.run(["gcc", "-o", b, self.drvobj[nargs], self.ioobj, obj], stdout=subprocess.PIPE, stderr=subprocess.STDOUT, text=True)
            if r.returncode != 0:
                return None, r.stdout
        return b, ""

    def run(self, binary, argv, timeout=10, env=None):
        try:
            r = subprocess.run([binary] + [str(a) for a in argv], stdout=subprocess.PIPE, stderr=subprocess.PIPE, timeout=timeout,
                               env=dict(os.environ, **env) if env else None)
        except subprocess.TimeoutExpired:
            return {"ran": False, "why": "timeout", "stdout": "", "status": -1}
        try:
            out = r.stdout.decode("ascii")
        except UnicodeDecodeError:
            out = "<non-ascii:%s>" % r.stdout.hex()
        return {"ran": True, "stdout": out, "status": r.returncode, "why": ""}

    def build_and_run(self, jobs, threads=12):
        """jobs: list of (name, asm text, nargs, [argv tuples]) -> dict name -> {"asm": diag or "", "runs": {argv tuple: result}}"""
        def one(job):
            name, text, nargs, argvs = job
            obj, diag = self.assemble(name, text)
            if obj is None:
                return name, {"assembled": False, "diag": diag[:600], "runs": {}}
            b, ldiag = self.link(name, obj, nargs)
            if b is None:
                return name, {"assembled": True, "linked": False, "diag": ldiag[:600], "runs": {}}
            return name, {"assembled": True, "linked": True, "diag": "", "runs": {",".join(map(str, a)): self.run(b, a) for a in argvs}}
        with concurrent.futures.ThreadPoolExecutor(max_workers=threads) as ex:
            return dict(ex.map(one, jobs))
