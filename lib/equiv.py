"""Inputs and runs of spec/Equiv.tla (observational equivalence of two stage outputs)."""
import json, os
from common import *

EXT = {"fun": "fun.json", "core": "core.json", "coreuniq": "coreuniq.json", "corefs": "corefs.json",
       "axcut": "axcut.json", "axcutlin": "axcutlin.json"}
KIND = {"fun": "fun", "core": "core", "coreuniq": "core", "corefs": "core", "axcut": "axcut", "axcutlin": "axcutlin"}


def limbs(x):
    x %= 1 << 64
    return [(x >> (16 * i)) & 0xffff for i in range(4)]


def load_stage(art, name, stage):
    q = json.load(open(os.path.join(art, "%s.%s" % (name, EXT[stage]))))
    if KIND[stage] in ("axcut", "axcutlin"):
        return index_axcut(q)
    q["defidx"] = {d["name"]: i + 1 for i, d in enumerate(q["defs"])}
    return q


def run_equiv(art, workdir, stage_a, stage_b, cases, maxsteps=20000, factor=60, slack=3000, timeout=1500, chunk=350):
    """cases: list of (program name, [int args]); run in chunks of at most `chunk` programs (TLC reads a chunk as one constant)."""
    names = []
    for n, _ in cases:
        if n not in names:
            names.append(n)
    if len(names) > chunk:
        merged = None
        for i in range(0, len(names), chunk):
            part = set(names[i:i + chunk])
            r = run_equiv(art, os.path.join(workdir, "part%d" % (i // chunk)), stage_a, stage_b, [c for c in cases if c[0] in part],
                          maxsteps=maxsteps, factor=factor, slack=slack, timeout=timeout, chunk=chunk)
            if merged is None:
                merged = r
            else:
                merged["results"] += r["results"]
                for k_ in ("states", "distinct", "wall"):
                    merged[k_] += r[k_]
        return merged
    progs, pidx, tcases = [], {}, []
    for name, args in cases:
        for st in (stage_a, stage_b):
            if (name, st) not in pidx:
                progs.append({"name": name + ":" + st, "kind": KIND[st], "prog": load_stage(art, name, st)})
                pidx[(name, st)] = len(progs)
        tcases.append({"name": "%s@%s" % (name, ",".join(map(str, args))), "a": pidx[(name, stage_a)],
                       "b": pidx[(name, stage_b)], "args": [limbs(a) for a in args]})
    os.makedirs(workdir, exist_ok=True)
    tag = "%s-%s" % (stage_a, stage_b)
    paths = {}
    for nm, obj in (("progs", progs), ("cases", tcases), ("cfg", {"maxsteps": maxsteps, "factor": factor, "slack": slack})):
        p = os.path.join(workdir, "%s.%s.json" % (tag, nm))
        json.dump(obj, open(p, "w"))
        paths[nm] = p
    env = {"SCCV_PROGS": paths["progs"], "SCCV_CASES": paths["cases"], "SCCV_CFG": paths["cfg"]}
    return tlc_batch("Equiv", "Equiv.cfg", os.path.join(workdir, "tlc-" + tag), env, len(tcases), timeout=timeout)
