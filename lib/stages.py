"""Driver of the stage-level checks (C02-C05, C12): generate Fun (and AxCut) programs, run the real pipeline,
run the typing walkers (spec/CoreTyping.tla, spec/AxCutTyping.tla) and the observational-equivalence product
(spec/Equiv.tla) on the dumped stage outputs."""
import json, os, sys, time, collections, glob
from common import *
import gen_fun, gen_axcut, equiv
from lockstep import normalize_why, CAPACITY_MSGS

sys.setrecursionlimit(20000)

STAGE_MODE = {"core": ("CoreTyping", "plain"), "coreuniq": ("CoreTyping", "unique"), "corefs": ("CoreTyping", "unique"),
              "axcut": ("AxCutTyping", "named"), "axcutlin": ("AxCutTyping", "linear")}


EFFECTS_LIMIT = None     # None: the whole effect-order corpus; n: about n files of it


def corpus_cases():
    out = []
    for f in sorted(glob.glob(os.path.join(REPO, "examples", "*", "*.sc"))):
        nm = "ex_" + os.path.basename(f)[:-3]
        a = open(f[:-3] + ".args").read() if os.path.exists(f[:-3] + ".args") else ""
        import re
        m = re.search(r"test_args\s*=\s*\[(.*?)\]", a)
        args = [int(x.strip().strip('"')) for x in m.group(1).split(",") if x.strip()] if m else []
        out.append(({"name": nm, "kind": "fun", "path": f}, [args]))
    eff = 0
    for f in sorted(glob.glob(os.path.join(VERIF, "corpus", "*", "*.sc"))):
        if "/effects/" in f:
            eff += 1
            if EFFECTS_LIMIT == 0 or EFFECTS_LIMIT is not None and (eff - 1) % max(1, 64 // max(1, EFFECTS_LIMIT)) != 0:
                continue          # a spread sample of the effect-order corpus for the checks that are not about evaluation order
        nm = "cp_" + os.path.basename(f)[:-3]
        out.append(({"name": nm, "kind": "fun", "path": f}, [[2]] if "/loops/" in f else ([[0], [2]] if "/pairs_" in f else [[]])))
    return out


def build(workdir, fun_plan, axcut_plan=None, with_corpus=True, emit="fun,core,coreuniq,corefs,axcut,axcutlin"):
    """fun_plan: list of dict(n=..., twins=bool, **FunGen kwargs).  -> art, index, args, meta"""
    lst, args, meta = [], {}, {}
    if with_corpus:
        for case, a in corpus_cases():
            lst.append(case)
            args[case["name"]] = a
            meta[case["name"]] = {"origin": "corpus"}
    s = seed()
    for k, plan in enumerate(fun_plan):
        plan = dict(plan)
        n = plan.pop("n")
        twins = plan.pop("twins", False)
        tag = plan.pop("tag", "g%d" % k)
        ps = gen_fun.generate(s * 1000 + k, n, **plan)
        tw = {nm: src for nm, src, _ in gen_fun.generate(s * 1000 + k, n, twin=True, **plan)} if twins else {}
        for nm, src, a in ps:
            name = "%s_%s" % (tag, nm)
            lst.append({"name": name, "kind": "fun", "src": src})
            args[name] = a
            meta[name] = {"origin": tag, "src": src}
            if nm in tw:
                tname = name + "_twin"
                lst.append({"name": tname, "kind": "fun", "src": tw[nm]})
                args[tname] = a
                meta[tname] = {"origin": tag + "-twin", "src": tw[nm], "twin_of": name}
                meta[name]["twin"] = tname
    for k, (prof, n) in enumerate(axcut_plan or []):
        import lockstep
        for nm, p, a in gen_axcut.generate(s * 100 + 50 + k, n, **lockstep.PROFILES[prof]):
            name = "ax_%s_%s" % (prof, nm)
            lst.append({"name": name, "kind": "axcut", "prog": p, "linear": False})
            args[name] = a
            meta[name] = {"origin": "axcut-" + prof}
    lp = os.path.join(workdir, "list.json")
    json.dump(lst, open(lp, "w"))
    art = os.path.join(workdir, "art")
    sccv("pipeline", lp, art, emit)
    index = {c["name"]: c for c in json.load(open(os.path.join(art, "index.json")))}
    for n, e in index.items():   # corpus programs: argument tuples of the right arity
        if meta.get(n, {}).get("origin") == "corpus" and e["kind"] == "fun":
            k = main_arity(e, art, n)
            args[n] = [a for a in args[n] if len(a) == k] or [[2] * k]
    return art, index, args, meta


def main_arity(entry, art, name):
    p = os.path.join(art, name + ".fun.json")
    if os.path.exists(p):
        q = json.load(open(p))
        for d in q["defs"]:
            if d["name"] == "main":
                return len(d["params"])
    return entry.get("nargs", 0)


def stage_ok(entry, stage):
    """did the pipeline produce this stage's artifact?"""
    order = ["parse", "check", "compile", "uniquify", "focus", "shrink", "linearize"]
    need = {"fun": "check", "core": "compile", "coreuniq": "uniquify", "corefs": "focus", "axcut": "shrink", "axcutlin": "linearize"}[stage]
    if entry["kind"] == "axcut":
        need = {"axcut": "build", "axcutlin": "linearize"}.get(stage)
        if need is None:
            return False
    return any(s["stage"] == need and s["outcome"] == "ok" for s in entry["stages"])


def run_walker(art, workdir, names, stage, chunk=500):
    """-> dict name -> list of reasons (empty list = well-typed), plus TLC stats"""
    if len(names) > chunk:
        bad, tot = {}, {"distinct": 0, "states": 0, "wall": 0}
        for i in range(0, len(names), chunk):
            b, r = run_walker(art, os.path.join(workdir, "wpart%d" % (i // chunk)), names[i:i + chunk], stage, chunk)
            bad.update(b)
            for k_ in tot:
                tot[k_] += r[k_] or 0
        return bad, tot
    module, mode = STAGE_MODE[stage]
    progs = [{"name": nm, "mode": mode, "prog": equiv.load_stage(art, nm, stage)} for nm in names]
    if not progs:
        return {}, {"distinct": 0, "states": 0, "wall": 0}
    wd = os.path.join(workdir, "walk-" + stage)
    os.makedirs(wd, exist_ok=True)
    pp = os.path.join(wd, "progs.json")
    json.dump(progs, open(pp, "w"))
    r = run_tlc(module, module + ".cfg", wd, {"SCCV_PROGS": pp}, timeout=3000)
    if r["states"] is None or r["rc"] != 0 or r["errors"]:
        raise ToolError("walker %s on %s did not complete (rc=%s, %s)" % (module, stage, r["rc"], r["errors"][:2]))
    bad = {nm: [] for nm in names}
    for x in r["results"]:
        bad[x["case"]].append(x["why"])
    return bad, r


def add_adversarial_labels(workdir, art, index, args, meta, limit):
    """Second compilation of a sample of programs extended by user definitions whose names are exactly the labels the
    compiler generated for the first compilation (share_<f>_<n>, lift_<f>__<id>), once appended and once prepended."""
    import re
    lst = []
    for n in list(index):
        src = meta.get(n, {}).get("src")
        p = os.path.join(art, n + ".core.json")
        if not src or not os.path.exists(p) or len(lst) >= 2 * limit:
            continue
        if meta[n].get("twin") or meta[n].get("origin") == "corpus":
            continue   # programs with shadowing are subject to the known capture defect; use their twins and plain programs
        user = set(re.findall(r"def\s+([a-z][A-Za-z0-9_]*)\s*\(", src))
        gen = [d["name"] for d in json.load(open(p))["defs"]]
        gen = [re.sub(r"_0$", "", g) for g in gen]   # Core keys are <name>_<id>; user-visible names have id 0
        gen = [g for g in gen if g not in user and re.match(r"^[a-z][A-Za-z0-9_]*$", g)]
        if not gen:
            continue
        g = gen[0]
        extra = "def %s(): i64 { 7 }\n" % g
        for tag, text in (("advA", src + extra), ("advP", extra + src)):
            name = "%s_%s" % (n, tag)
            lst.append({"name": name, "kind": "fun", "src": text})
            args[name] = args[n]
            meta[name] = {"origin": "adversarial-label", "src": text}
    if not lst:
        return
    lp = os.path.join(workdir, "adv.json")
    json.dump(lst, open(lp, "w"))
    sccv("pipeline", lp, art, "fun,core,coreuniq,corefs,axcut,axcutlin")
    extra_index = json.load(open(os.path.join(art, "index.json")))
    for c in extra_index:
        index[c["name"]] = c


def stage_check(pid, tier, pairs, walk_stages, fun_plan, axcut_plan=None, maxsteps=6000, own_hyp=None, timeout=1500,
                level="translation_validation", rule="", capture_twins=False, with_corpus=True, adversarial_labels=0):
    """pairs: list of (stage_a, stage_b) compared observationally; walk_stages: stages whose typing the property claims;
    own_hyp: stage whose well-typedness is the hypothesis (cases failing it are excluded and blamed upstream)."""
    t0 = time.time()
    build_harness()
    work = fresh_dir(WORK, pid)
    art, index, args, meta = build(work, fun_plan, axcut_plan, with_corpus=with_corpus)
    if adversarial_labels:
        add_adversarial_labels(work, art, index, args, meta, adversarial_labels)
    stats = collections.Counter()
    viols = []
    states = trans = 0
    samples = []
    # ---- hypothesis
    excluded = set()
    if own_hyp:
        names = [n for n in index if stage_ok(index[n], own_hyp)]
        bad, r = run_walker(art, work, names, own_hyp)
        states += r["distinct"]; trans += r["states"]
        excluded = {n for n, w in bad.items() if w}
        stats["hypothesis-failed(%s ill-typed, blamed upstream)" % own_hyp] = len(excluded)
    # ---- typing of the stages this property claims
    for stg in walk_stages:
        names = [n for n in index if stage_ok(index[n], stg) and n not in excluded]
        bad, r = run_walker(art, work, names, stg)
        states += r["distinct"]; trans += r["states"]
        stats["walked:" + stg] = len(names)
        for n, ws in bad.items():
            if not ws:
                continue
            stats["ill-typed:" + stg] += 1
            tw = meta.get(n, {}).get("twin")
            cap = capture_twins and tw and not bad.get(tw)
            sig = "%s:capture:typing" % pid if cap else "%s:typing:%s:%s" % (pid, stg, normalize_why(ws[0]))
            rp = save_replay(pid, "typing-%s-%s" % (stg, n), {"program": n, "stage": stg, "reasons": ws, "source": meta.get(n, {}).get("src"),
                                                                "artifact": json.load(open(os.path.join(art, "%s.%s" % (n, equiv.EXT[stg]))))})
            viols.append({"signature": sig, "what": "%s: %s output is ill-typed: %s" % (n, stg, ws[0]), "replay": rp})
    # ---- observational equivalence
    for a, b in pairs:
        cases = [(n, x) for n in index if stage_ok(index[n], a) and stage_ok(index[n], b) and n not in excluded for x in args[n]]
        r = equiv.run_equiv(art, work, a, b, cases, maxsteps=maxsteps, timeout=timeout)
        states += r["distinct"]; trans += r["states"]
        res = {x["case"]: x for x in r["results"]}
        for x in r["results"]:
            stats["%s->%s:%s" % (a, b, x["status"] + (":" + x["tag"] if x["status"] in ("excluded", "hypothesis") else ""))] += 1
            if x["status"] != "fail":
                continue
            n, _, av = x["case"].partition("@")
            tw = meta.get(n, {}).get("twin")
            twres = res.get("%s@%s" % (tw, av)) if tw else None
            cap = capture_twins and twres is not None and twres["status"] in ("agree", "excluded")
            sig = "%s:capture:%s" % (pid, x["tag"]) if cap else "%s:%s->%s:%s:%s" % (pid, a, b, x["tag"], normalize_why(x["why"]))
            payload = {"case": x["case"], "result": x, "source": meta.get(n, {}).get("src"), "stages": [a, b]}
            for stg in (a, b):
                payload[stg] = json.load(open(os.path.join(art, "%s.%s" % (n, equiv.EXT[stg]))))
            rp = save_replay(pid, "%s-%s-%s" % (a, b, x["case"]), payload)
            viols.append({"signature": sig, "what": "%s: %s vs %s: %s" % (x["case"], a, b, x["why"]), "replay": rp})
        for x in sorted([y for y in r["results"] if y["status"] == "agree"], key=lambda y: -y["asteps"])[:2]:
            samples.append({"pair": [a, b], "case": x["case"], "steps_a": x["asteps"], "steps_b": x["bsteps"], "prints": x["nout"],
                            "source": (meta.get(x["case"].partition("@")[0], {}).get("src") or "")[:600]})
        log("[%s] %s->%s: %d cases, %d states, %.0fs" % (pid, a, b, len(cases), r["distinct"], r["wall"]))
    log("[%s] %s" % (pid, dict(stats)))
    new = triage(pid, viols)
    nprog = len([n for n in index if n not in excluded])
    ncases = sum(v for k, v in stats.items() if "->" in k)
    coverage = {"programs": nprog, "disagreements_checked": ncases, "samples": samples or [{"note": "walker only", "programs": nprog}],
                "states": states, "transitions": trans, "traces_validated_against_impl": ncases + sum(v for k, v in stats.items() if k.startswith("walked:")),
                "outcomes": dict(stats), "rule": rule + " Generator plans: %s, seed %d." % (json.dumps(fun_plan), seed())}
    write_evidence(pid, tier, level, coverage, time.time() - t0, len(viols),
                   assumptions=["abstract machines of DESIGN Appendix A (spec/FunMachine.tla, CoreMachine.tla, AxCutMachine.tla) define the semantics",
                                "serializers harness/src/ser_*.rs dump the public AST fields faithfully"])
    return 1 if new else 0


# ---------------------------------------------------------------------------------------------- stage-event traces
def linear_facts(q):
    """facts about a linearised AxCut program used by the capacity predicates of spec/PipelineDefs.tla"""
    nodes = q["nodes"]
    hasprint = any(n["k"] == "print" for n in nodes)
    best = [0]
    seen = set()

    def walk(i, L):
        # L = length of the environment before statement i
        stack = [(i, L)]
        while stack:
            i, L = stack.pop()
            if (i, L) in seen:
                continue
            seen.add((i, L))
            n = nodes[i - 1]
            k = n["k"]
            best[0] = max(best[0], L)
            if k == "substitute":
                stack.append((n["next"], len(n["re"])))
            elif k == "let":
                best[0] = max(best[0], L - len(n["args"]) + 1)
                stack.append((n["next"], L - len(n["args"]) + 1))
            elif k == "switch":
                for c in n["clauses"]:
                    best[0] = max(best[0], L - 1 + len(c["ctx"]))
                    stack.append((c["body"], L - 1 + len(c["ctx"])))
            elif k == "create":
                for c in n["clauses"]:
                    best[0] = max(best[0], len(c["ctx"]) + len(n["env"]))
                    stack.append((c["body"], len(c["ctx"]) + len(n["env"])))
                stack.append((n["next"], L - len(n["env"]) + 1))
            elif k in ("lit", "op"):
                best[0] = max(best[0], L + 1)
                stack.append((n["next"], L + 1))
            elif k == "print":
                stack.append((n["next"], L))
            elif k == "ifc":
                stack.append((n["thenc"], L))
                stack.append((n["elsec"], L))
    for d in q["defs"]:
        walk(d["body"], len(d["ctx"]))
    return {"nargs": len(q["defs"][0]["ctx"]) if q["defs"] else 0, "maxctx": best[0], "hasprint": hasprint}


def classify_event(s):
    if s["outcome"] == "ok":
        return "ok"
    if s["outcome"] == "error":
        return {"parse": "parse_error", "check": "type_error"}.get(s["stage"], "error")
    if any(m in s["msg"] for m in CAPACITY_MSGS):
        return "capacity"
    return "panic"


def stage_traces(art, index, names=None):
    traces = []
    for n, e in index.items():
        if names is not None and n not in names:
            continue
        p = os.path.join(art, n + ".axcutlin.json")
        facts = linear_facts(json.load(open(p))) if os.path.exists(p) else {"nargs": 0, "maxctx": 0, "hasprint": False}
        evs = [{"stage": s["stage"], "class": classify_event(s), "msg": s["msg"][:200]} for s in e["stages"] if s["stage"] != "build"]
        traces.append({"name": n, "kind": "stages", "events": evs, "facts": facts})
    return traces


def run_stage_traces(workdir, traces):
    wd = os.path.join(workdir, "trace")
    os.makedirs(wd, exist_ok=True)
    cp = os.path.join(wd, "cfg.json")
    json.dump({"reference": {"none|none": ""}}, open(cp, "w"))
    return tlc_batch_chunked("TracePipeline", "TracePipeline.cfg", wd, traces, envkey="SCCV_CASES", extra_env={"SCCV_CFG": cp}, timeout=3000)
