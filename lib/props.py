"""One function per property: check_<id>(tier) -> exit code."""
import json, os, sys
from common import *
import lockstep, random
import gen_linear as GL


def T(tier, q, t):
    return q if tier == "quick" else t


def rng_for(tag):
    return random.Random("%d-%s" % (seed(), tag))


def placements(tier, tag):
    r = rng_for(tag)
    k = T(tier, 1, 12)
    return (GL.fam_literals(r, 12 * k) + GL.fam_ops(r, 120 * k) + GL.fam_ifc(r, 100 * k) + GL.fam_print(r, 44 * min(k, 4))
            + GL.fam_arity(7))


def codegen_check(pid, tier, backend):
    plan = T(tier, [("base", 110), ("spill", 50), ("objects", 40)], [("base", 1500), ("spill", 800), ("objects", 700)])
    return lockstep.lockstep_check(
        pid, tier, [backend], plan, maxsteps=T(tier, 5000, 20000), timeout=T(tier, 900, 7000),
        directed=placements(tier, pid),
        extra_rule="plus directed linear families: literals of every magnitude at every position, 5 operators and 12 "
                   "comparison forms with operands/targets at enumerated positions across the register/spill boundary, "
                   "prints with 0..21 live variables, main arities 0..7")


def check_C06(tier):
    return codegen_check("C06", tier, "x86")


def check_C07(tier):
    return codegen_check("C07", tier, "a64")


def replay(pid, path):
    p = json.load(open(path))
    print(json.dumps({k: v for k, v in p.items() if k in ("property", "backend", "case", "result", "signature")}, indent=1))
    return 0
