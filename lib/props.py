"""One function per property: check_<id>(tier) -> exit code."""
import json, os, sys
from common import *
import lockstep


def T(tier, q, t):
    return q if tier == "quick" else t


def check_C06(tier):
    plan = T(tier, [("base", 120), ("spill", 60), ("objects", 50)], [("base", 1500), ("spill", 800), ("objects", 700)])
    return lockstep.lockstep_check("C06", tier, ["x86"], plan, maxsteps=T(tier, 5000, 20000), timeout=T(tier, 900, 6000))


def check_C07(tier):
    plan = T(tier, [("base", 120), ("spill", 60), ("objects", 50)], [("base", 1500), ("spill", 800), ("objects", 700)])
    return lockstep.lockstep_check("C07", tier, ["a64"], plan, maxsteps=T(tier, 5000, 20000), timeout=T(tier, 900, 6000))


def replay(pid, path):
    p = json.load(open(path))
    print(json.dumps({k: v for k, v in p.items() if k in ("property", "backend", "case", "result", "signature")}, indent=1))
    return 0
