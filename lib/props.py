"""One function per property: check_<id>(tier) -> exit code."""
import json, os, sys
from common import *
import lockstep, random
import gen_linear as GL


def T(tier, q, t):
    return q if tier == "quick" else t


def rng_for(tag):
    return random.Random("%d-%s" % (seed(), tag))


def placements(tier, tag):
    r = rng_for(tag)
    k = T(tier, 1, 12)
    return (GL.fam_literals(r, 12 * k) + GL.fam_ops(r, 120 * k) + GL.fam_ifc(r, 100 * k) + GL.fam_print(r, 44 * min(k, 4))
            + GL.fam_arity(7))


def codegen_check(pid, tier, backend):
    plan = T(tier, [("base", 110), ("spill", 50), ("objects", 40)], [("base", 1500), ("spill", 800), ("objects", 700)])
    return lockstep.lockstep_check(
        pid, tier, [backend], plan, maxsteps=T(tier, 5000, 20000), timeout=T(tier, 900, 7000),
        directed=placements(tier, pid),
        extra_rule="plus directed linear families: literals of every magnitude at every position, 5 operators and 12 "
                   "comparison forms with operands/targets at enumerated positions across the register/spill boundary, "
                   "prints with 0..21 live variables, main arities 0..7")


def check_C06(tier):
    return codegen_check("C06", tier, "x86")


def check_C07(tier):
    return codegen_check("C07", tier, "a64")


def replay(pid, path):
    p = json.load(open(path))
    print(json.dumps({k: v for k, v in p.items() if k in ("property", "backend", "case", "result", "signature")}, indent=1))
    return 0


def check_C08(tier):
    """RISC-V: lock-step on print-free programs + agreement of the three backends on their results."""
    plan = T(tier, [("noprint", 160), ("noprint_spill", 80)], [("noprint", 2500), ("noprint_spill", 1500)])
    r = rng_for("C08")
    k = T(tier, 1, 10)
    directed = [d for d in GL.fam_literals(r, 10 * k) + GL.fam_ops(r, 150 * k) + GL.fam_ifc(r, 120 * k)]

    def agree(art, index, args, work, stats):
        res = {be: {x["case"]: x for x in json.load(open(os.path.join(work, "results-%s.json" % be)))} for be in ("rv64", "x86", "a64")}
        viols, compared = [], 0
        for case, x in res["rv64"].items():
            if x["status"] != "done":
                continue
            for other in ("x86", "a64"):
                y = res[other].get(case)
                if y is None or y["status"] != "done":
                    continue
                compared += 1
                if y["res"] != x["res"]:
                    sig = "C08:agree:rv64-vs-%s" % other
                    rp = save_replay("C08", "agree-" + case, {"case": case, "rv64": x, other: y})
                    viols.append({"signature": sig, "what": "%s: RISC-V result differs from %s" % (case, other), "replay": rp})
        stats["agree"] = {"compared": compared}
        return viols
    return lockstep.lockstep_check(
        "C08", tier, ["rv64", "x86", "a64"], plan, maxsteps=T(tier, 5000, 20000), timeout=T(tier, 900, 7000),
        directed=directed, with_examples=False, post=agree,
        extra_rule="print-free programs only; failures of the x86/a64 runs are reported by C06/C07, here they only take "
                   "part in the three-way comparison of final results (BackendsAgree)")


def check_C13(tier):
    r = rng_for("C13")
    k = T(tier, 2, 12)
    directed = GL.fam_print(r, 44 * k, nparams_max=7) + GL.fam_arity(7)
    plan = T(tier, [("printy", 120)], [("printy", 2500)])
    return lockstep.lockstep_check(
        "C13", tier, ["x86", "a64"], plan, maxsteps=T(tier, 5000, 20000), timeout=T(tier, 900, 7000), directed=directed,
        level="model_checking",
        extra_rule="C13 predicates of the external-call model: AlignedAtCall, AlignedAtSpAccess (AArch64), "
                   "CalleeSavedRestored, SpRestored, ReturnsToCaller, NoUndefUse after the call destroyed every caller-saved "
                   "register, flags, link register and dead stack; directed: print with 0..21 live variables of mixed kinds "
                   "x 0..7 entry arguments (beyond-capacity arities are skipped)")


def loops_extra(tier):
    import glob
    ns = T(tier, [0, 1, 4, 16], [0, 1, 4, 16, 64, 256])
    return [({"name": "loop_" + os.path.basename(f)[:-3], "kind": "fun", "path": f}, [[n] for n in ns])
            for f in sorted(glob.glob(os.path.join(VERIF, "corpus", "loops", "*.sc")))]


def check_C10(tier):
    def same_frontier(art, index, args, work, stats):
        viols = []
        for be in ("x86", "a64"):
            byprog = {}
            for x in json.load(open(os.path.join(work, "results-%s.json" % be))):
                name, _, a = x["case"].partition("@")
                if name.startswith("loop_") and x["status"] == "done":
                    byprog.setdefault(name, {})[int(a)] = x["F"]
            for name, fs in byprog.items():
                big = {n: f for n, f in fs.items() if n >= 4}
                if len(set(big.values())) > 1:
                    rp = save_replay("C10", "growth-%s-%s" % (be, name), {"backend": be, "program": name, "frontier_by_n": fs})
                    viols.append({"signature": "C10:%s:growth:%s" % (be, name), "replay": rp,
                                  "what": "%s on %s: allocation frontier grows with the number of iterations %s" % (name, be, fs)})
            stats.setdefault(be, {})["loop_frontiers"] = byprog
        return viols
    plan = T(tier, [("objects", 80), ("base", 60)], [("objects", 1500), ("base", 1500)])
    return lockstep.lockstep_check(
        "C10", tier, ["x86", "a64", "rv64"], plan, maxsteps=T(tier, 60000, 1500000), nblocks=160, timeout=T(tier, 900, 7000),
        extra=loops_extra(tier), post=same_frontier, level="model_checking",
        extra_rule="Footprint: frontier <= peak reachable blocks + 2 at every statement boundary; build-and-drop loops "
                   "(corpus/loops) run with n = 0,1,4,16(,64,256) iterations and must end with the same frontier for n >= 4")


def check_C09(tier):
    plan = T(tier, [("objects", 90), ("base", 70), ("spill", 30)], [("objects", 2000), ("base", 1500), ("spill", 600)])
    return lockstep.lockstep_check(
        "C09", tier, ["x86", "a64", "rv64"], plan, maxsteps=T(tier, 20000, 200000), nblocks=160, timeout=T(tier, 900, 7000),
        extra=loops_extra("quick"), level="model_checking",
        extra_rule="HeapInv (spec/HeapInv.tla) evaluated on the concrete heap words and registers at every statement marker; "
                   "MemInBounds at every instruction")


def check_C11(tier):
    r = rng_for("C11")
    if tier == "quick":
        directed = GL.fam_subst_exhaustive(3, 3, [0, 4, 5, 11, 12]) + GL.fam_subst_random(r, 300)
    else:
        def pats(n):
            import itertools
            if n <= 3:
                return list(itertools.product("eo", repeat=n))
            return [tuple("e" * n), tuple("o" * n), tuple(("eo" * n)[:n]), tuple(("oe" * n)[:n])]
        directed = GL.fam_subst_exhaustive(4, 4, [0, 3, 4, 5, 10, 11, 12], kind_patterns=pats) + GL.fam_subst_random(r, 4000)
    return lockstep.lockstep_check(
        "C11", tier, ["x86", "a64", "rv64"], [], maxsteps=4000, timeout=T(tier, 900, 7000), directed=directed,
        with_examples=False, level="model_checking",
        extra_rule="every map from m new variables to n old ones (quick m,n<=3; thorough m,n<=4), every kind assignment "
                   "(patterns above 3), window offsets across each backend's register/spill boundary; the marker after the "
                   "substitution compares every new variable with the simultaneous assignment of the AxCut machine and "
                   "HeapInv checks that copies raised and drops released the reference counts exactly")
lockstep.TAGS["C11"] = {"control", "env", "result", "value", "undef", "heap", "mem", "axcut"}


# ---------------------------------------------------------------------------------------------- stage checks
import stages


def check_C02(tier):
    k = T(tier, 1, 12)
    plan = [dict(n=180 * k, mode="seq", pressure=True, twins=True, budget=(8, 26), tag="press"),
            dict(n=80 * k, mode="seq", pressure=False, budget=(8, 30), wide=True, tag="plain")]
    return stages.stage_check(
        "C02", tier, [("fun", "core")], ["core"], plan, maxsteps=T(tier, 6000, 20000), capture_twins=True,
        rule="Fun machine vs Core machine on the real compile_prog output (effects only in sequenced positions); Core output "
             "walked by spec/CoreTyping.tla; programs with heavy name reuse (let/pattern/label binders, generated-looking "
             "names) and their alpha-renamed twins whose binders are all distinct and look compiler-generated: a failure "
             "that the twin does not show is name capture, a failure of a twin is always new.")


def check_C03(tier):
    k = T(tier, 1, 12)
    plan = [dict(n=200 * k, mode="any", pressure=False, budget=(8, 30), tag="any"),
            dict(n=80 * k, mode="any", pressure=True, twin=True, budget=(8, 24), tag="anytw")]
    return stages.stage_check(
        "C03", tier, [("core", "coreuniq"), ("core", "corefs")], ["coreuniq", "corefs"], plan, own_hyp="core",
        maxsteps=T(tier, 6000, 20000),
        rule="Core machine with dynamic focusing on the unfocused translation output vs the same machine on the uniquified and "
             "on the focused program (effects in every argument position); walker in mode unique: binders distinct along "
             "every path, ids non-zero and <= max_id, well-typed.")


def check_C04(tier):
    k = T(tier, 1, 12)
    plan = [dict(n=220 * k, mode="any", pressure=False, budget=(8, 30), wide=True, tag="any"),
            dict(n=60 * k, mode="seq", pressure=True, twin=True, budget=(8, 24), tag="tw")]
    return stages.stage_check(
        "C04", tier, [("corefs", "axcut")], ["axcut"], plan, own_hyp="corefs", maxsteps=T(tier, 6000, 20000),
        rule="Core machine on the focused program vs AxCut machine (named mode) on the real shrink_prog output; AxCut output "
             "walked by spec/AxCutTyping.tla (chirality collapse, clause order, lifted definitions called with their free "
             "variables).")


def check_C05(tier):
    k = T(tier, 1, 12)
    plan = [dict(n=160 * k, mode="any", pressure=False, budget=(8, 30), wide=True, tag="any")]
    ax = [("base", 100 * k), ("spill", 40 * k), ("objects", 40 * k)]
    return stages.stage_check(
        "C05", tier, [("axcut", "axcutlin")], ["axcutlin"], plan, axcut_plan=ax, own_hyp="axcut", maxsteps=T(tier, 6000, 20000),
        level="model_checking",
        rule="(i) all-paths walk of the linearised program (spec/AxCutTyping.tla, mode linear): ContextExact per statement "
             "kind, KindsAgree, SubstituteWellFormed; (ii) AxCut machine in named mode on the input vs positional mode on the "
             "real linearize output. Inputs: shrink_prog outputs of generated Fun programs and directly generated non-linear "
             "AxCut programs.")
