"""One function per property: check_<id>(tier) -> exit code."""
import json, os, sys, shutil, re, itertools
from common import *
import lockstep, random
import gen_linear as GL


def T(tier, q, t):
    return q if tier == "quick" else t


def rng_for(tag):
    return random.Random("%d-%s" % (seed(), tag))


def placements(tier, tag):
    r = rng_for(tag)
    k = T(tier, 1, 12)
    return (GL.fam_literals(r, 12 * k) + GL.fam_ops(r, 120 * k) + GL.fam_ifc(r, 100 * k) + GL.fam_print(r, 44 * min(k, 4))
            + GL.fam_arity(7))


def codegen_check(pid, tier, backend):
    plan = T(tier, [("base", 200), ("spill", 100), ("objects", 100), ("tables", 50)], [("base", 2500), ("spill", 1200), ("objects", 1200), ("tables", 600)])
    return lockstep.lockstep_check(
        pid, tier, [backend], plan, maxsteps=T(tier, 6000, 30000), timeout=T(tier, 900, 9000),
        directed=placements(tier, pid),
        extra_rule="plus directed linear families: literals of every magnitude at every position, 5 operators and 12 "
                   "comparison forms with operands/targets at enumerated positions across the register/spill boundary, "
                   "prints with 0..21 live variables, main arities 0..7")


def check_C06(tier):
    return codegen_check("C06", tier, "x86")


def check_C07(tier):
    return codegen_check("C07", tier, "a64")


def replay(pid, path):
    """re-run one recorded violation from its replay file (the artifacts of the failing case are inside the file)"""
    import refine
    p = json.load(open(path))
    print(json.dumps({k: v for k, v in p.items() if k in ("property", "backend", "case", "result", "signature", "why", "stages", "class")}, indent=1)[:3000])
    if "backend" in p and p.get("backend") + ".asm" in p and "axcutlin.json" in p:
        # lock-step case: rebuild the single-case inputs from the recorded artifacts and run the product again
        be = p["backend"]
        name, _, a = p["case"].partition("@")
        work = fresh_dir(WORK, "replay")
        art = os.path.join(work, "art")
        os.makedirs(art)
        open(os.path.join(art, "%s.%s.asm" % (name, be)), "w").write(p[be + ".asm"])
        json.dump(p["axcutlin.json"], open(os.path.join(art, name + ".axcutlin.json"), "w"))
        build_harness()
        sccv("config", art)
        args = [int(x) for x in a.split(",") if x != ""]
        env, n = refine.make_inputs(art, os.path.join(work, "tlc"), be, [(name, args)], maxsteps=200000)
        cfg = json.load(open(env["SCCV_CFG"])); cfg["strict_encode"] = False
        json.dump(cfg, open(env["SCCV_CFG"], "w"))
        r = tlc_batch("Refine", "Refine.cfg", os.path.join(work, "tlc"), env, 1, timeout=1200)
        x = r["results"][0]
        print("replayed on the recorded artifacts: status=%s tag=%s why=%s steps=%d markers=%d" % (x["status"], x["tag"], x["why"], x["steps"], x["marks"]))
        code = refine.load_code(art, name, be)["code"]
        lo = max(0, x["pc"] - 12)
        for i in range(lo, min(len(code), x["pc"] + 2)):
            print("%s %5d  %s" % ("=>" if i + 1 == x["pc"] else "  ", i + 1, json.dumps(code[i])[:150]))
        if x["status"] == "fail":
            print("VIOLATION property=%s replay=%s" % (pid, path))
            return 1
        return 0
    if p.get("source"):
        print("---- source ----\n" + p["source"])
    return 0



def check_C08(tier):
    """RISC-V: lock-step on print-free programs + agreement of the three backends on their results."""
    plan = T(tier, [("noprint", 160), ("noprint_spill", 80)], [("noprint", 2500), ("noprint_spill", 1500)])
    r = rng_for("C08")
    k = T(tier, 1, 10)
    directed = [d for d in GL.fam_literals(r, 10 * k) + GL.fam_ops(r, 150 * k) + GL.fam_ifc(r, 120 * k)]

    def agree(art, index, args, work, stats):
        res = {be: {x["case"]: x for x in json.load(open(os.path.join(work, "results-%s.json" % be)))} for be in ("rv64", "x86", "a64")}
        viols, compared = [], 0
        for case, x in res["rv64"].items():
            if x["status"] != "done":
                continue
            for other in ("x86", "a64"):
                y = res[other].get(case)
                if y is None or y["status"] != "done":
                    continue
                compared += 1
                if y["res"] != x["res"]:
                    sig = "C08:agree:rv64-vs-%s" % other
                    rp = save_replay("C08", "agree-" + case, {"case": case, "rv64": x, other: y})
                    viols.append({"signature": sig, "what": "%s: RISC-V result differs from %s" % (case, other), "replay": rp})
        stats["agree"] = {"compared": compared}
        return viols
    return lockstep.lockstep_check(
        "C08", tier, ["rv64", "x86", "a64"], plan, maxsteps=T(tier, 5000, 20000), timeout=T(tier, 900, 7000),
        directed=directed, with_examples=False, post=agree,
        extra_rule="print-free programs only; failures of the x86/a64 runs are reported by C06/C07, here they only take "
                   "part in the three-way comparison of final results (BackendsAgree)")


def check_C13(tier):
    r = rng_for("C13")
    k = T(tier, 2, 12)
    directed = GL.fam_print(r, 44 * k, nparams_max=7) + GL.fam_arity(7)
    plan = T(tier, [("printy", 120)], [("printy", 2500)])
    return lockstep.lockstep_check(
        "C13", tier, ["x86", "a64"], plan, maxsteps=T(tier, 5000, 20000), timeout=T(tier, 900, 7000), directed=directed,
        level="model_checking",
        extra_rule="C13 predicates of the external-call model: AlignedAtCall, AlignedAtSpAccess (AArch64), "
                   "CalleeSavedRestored, SpRestored, ReturnsToCaller, NoUndefUse after the call destroyed every caller-saved "
                   "register, flags, link register and dead stack; directed: print with 0..21 live variables of mixed kinds "
                   "x 0..7 entry arguments (beyond-capacity arities are skipped)")


def loops_extra(tier):
    import glob
    ns = T(tier, [0, 1, 4, 16], [0, 1, 4, 16, 64, 256])
    return [({"name": "loop_" + os.path.basename(f)[:-3], "kind": "fun", "path": f}, [[n] for n in ns])
            for f in sorted(glob.glob(os.path.join(VERIF, "corpus", "loops", "*.sc")))]


def mc_heap(pid, tier, invariant, emit_histories=False):
    """design-level model: exhaustive BFS to a level bound plus random deep histories (TLC simulation) of spec/AxCutHeap.tla"""
    work = os.path.join(WORK, pid, "mc_heap")
    os.makedirs(work, exist_ok=True)
    out = {"states": 0, "transitions": 0, "viols": [], "notes": [], "histories": [], "sim_histories": []}
    runs = [("bfs", dict(MaxVars=3, MaxBlocks=8, Arities="{0,1,2,4,5}", MaxLevel=T(tier, 4, 5)), None),
            ("sim", dict(MaxVars=4, MaxBlocks=14, Arities="{0,1,2,3,4,5,7}", MaxLevel=60), "num=%d" % T(tier, 3, 200))]
    for mode, consts, sim in runs:
        consts = dict(consts, EmitFrom=(1 if sim or tier == "quick" else consts["MaxLevel"] - 2),
                      EmitOneIn=(1 if tier == "quick" else (25 if sim else 8)))
        cfg = "SPECIFICATION Spec\nCONSTANTS\n" + "".join("  %s = %s\n" % kv for kv in consts.items()) + "  FootK = 1\n" + \
              "INVARIANT %s\n%sCONSTRAINT Bounded\nVIEW StateView\nCHECK_DEADLOCK FALSE\n" % (invariant, "INVARIANT EmitHist\n" if emit_histories else "")
        cname = "MC_Heap_%s_%s.cfg" % (pid, mode)
        open(os.path.join(SPEC, cname), "w").write(cfg)
        extra = ["-depth", "45"] if sim else None
        try:
            r = run_tlc("MC_Heap", cname, os.path.join(work, mode), {}, timeout=(T(tier, 120, 3600) if sim else T(tier, 240, 7200)), simulate=sim, extra=extra)
        except ToolError as e:
            if sim:   # simulation is time-boxed: a timeout only ends the sampling; what it checked so far is in the output file
                txt = open(os.path.join(work, mode, "tlc-MC_Heap.out")).read()
                if "violated" in txt:
                    rp = save_replay(pid, "design-%s-sim" % invariant, {"invariant": invariant, "tlc_output": txt[-6000:]})
                    out["viols"].append({"signature": "%s:design:%s" % (pid, invariant), "replay": rp, "what": "design model violates %s (simulation)" % invariant})
                m = re.findall(r"(\d+) states checked, (\d+) traces generated", txt)
                out["notes"].append("simulation time box reached after %s states on %s random histories" % (m[-1] if m else ("0", "0")))
                if emit_histories:
                    hs = [json.loads(json.loads(l.strip())[5:]) for l in sorted({l for l in txt.splitlines() if l.startswith('"HIST ') and l.rstrip().endswith('"')})]
                    pref = {json.dumps(x["h"][:-1]) for x in hs}
                    out["sim_histories"] = [x for x in hs if json.dumps(x["h"]) not in pref]
                continue
            raise
        txt = open(r["out"]).read()
        if "is violated" in txt or "Invariant" in txt and "violated" in txt:
            rp = save_replay(pid, "design-%s-%s" % (invariant, mode), {"invariant": invariant, "mode": mode, "constants": consts, "tlc_output": txt[-6000:]})
            out["viols"].append({"signature": "%s:design:%s" % (pid, invariant), "replay": rp,
                                 "what": "the allocator design model spec/AxCutHeap.tla violates %s (%s, %s)" % (invariant, mode, consts)})
        elif r["rc"] != 0 and not sim:
            raise ToolError("MC_Heap (%s) failed: %s" % (mode, (r["errors"] or [txt[-300:]])[:2]))
        if r["states"]:
            out["states"] += r["distinct"] or 0
            out["transitions"] += r["states"] or 0
        if emit_histories:
            hs = sorted({l.strip() for l in txt.splitlines() if l.startswith('"HIST ')})
            hs = [json.loads(json.loads(h)[5:]) for h in hs]    # records {h: history, fin: predicted heap summary}
            if sim:   # every prefix of a random behaviour is printed: keep the maximal ones
                pref = {json.dumps(x["h"][:-1]) for x in hs}
                out["sim_histories"] = [x for x in hs if json.dumps(x["h"]) not in pref]
            else:
                out["histories"] = hs
        m = re.search(r"(\d+) states checked, (\d+) traces generated", txt)
        if sim and m:
            out["notes"].append("simulation: %s states checked on %s random histories" % (m.group(1), m.group(2)))
    return out


def history_directed(pid, tier, mc):
    """linear programs for the design model's histories: a sample of the BFS histories (longest first) and a sample of the
    random deep ones, each unpadded and - for a smaller sample - behind 6 and 13 padding variables (destinations spilled on
    x86-64 / AArch64).  -> (directed programs, {program name: heap summary the design model predicts at the end})"""
    hs = mc["histories"]
    r = rng_for(pid + "h")
    if len(hs) > T(tier, 450, 5000):
        deepest = max(len(x["h"]) for x in hs)
        longest = [x for x in hs if len(x["h"]) >= deepest]
        hs = r.sample(longest, min(len(longest), T(tier, 350, 4000))) + r.sample(hs, T(tier, 100, 1000))
    directed, expect = [], {}

    def add(name, x, pad):
        directed.append((name, GL.history_program(x["h"], pad), [[]]))
        expect[name] = x["fin"]
    for i, x in enumerate(hs):
        add("hist%d" % i, x, 0)
    padded = r.sample(hs, min(len(hs), T(tier, 120, 1200)))
    sims = mc["sim_histories"]   # includes the unchosen successors TLC evaluated along each random behaviour: sample the deep ones
    if sims:
        deep = max(len(x["h"]) for x in sims)
        sims = [x for x in sims if len(x["h"]) >= 0.6 * deep]
        sims = r.sample(sims, min(len(sims), T(tier, 16, 200)))
    for pad in (0, 6, 13):
        for i, x in enumerate(sims):
            add("simhist%d_p%d" % (i, pad), x, pad)
        if pad:
            for i, x in enumerate(padded):
                add("hist_p%d_%d" % (pad, i), x, pad)
    return directed, expect


def design_conformance(pid, expect, backends=("x86", "a64", "rv64")):
    """post hook: compares the concrete heap at the last statement marker of a replayed history with the heap the design model
    (spec/AxCutHeap.tla) predicts: head blocks of both free lists, list lengths, reachable count, frontier.  A deviation is
    *reported, not a violation*: C09/C10 do not prescribe which free block is reused first, so an allocator that deviates from
    the design model can still satisfy them; the invariants and the fresh-memory rule of spec/Refine.tla decide."""
    def post(art, index, args, work, stats):
        for be in backends:
            n, dev = 0, []
            p = os.path.join(work, "results-%s.json" % be)
            if not os.path.exists(p):
                continue
            for x in json.load(open(p)):
                name = x["case"].partition("@")[0]
                if name in expect and x["status"] == "done":
                    n += 1
                    if x["fin"] != expect[name]:
                        dev.append({"program": name, "predicted": expect[name], "observed": x["fin"]})
            stats.setdefault(be, {})["design_conformance"] = {"histories_compared": n, "deviations": len(dev), "first_deviations": dev[:3]}
            if dev:
                log("NOTE property=%s design-deviation backend=%s: %d of %d replayed histories end in a heap that differs from the prediction "
                    "of spec/AxCutHeap.tla (not a violation by itself), e.g. %s" % (pid, be, len(dev), n, dev[0]))
        return []
    return post


def check_C10(tier):
    def same_frontier(art, index, args, work, stats):
        viols = []
        for be in ("x86", "a64"):
            byprog = {}
            for x in json.load(open(os.path.join(work, "results-%s.json" % be))):
                name, _, a = x["case"].partition("@")
                if name.startswith("loop_") and x["status"] == "done":
                    byprog.setdefault(name, {})[int(a)] = x["F"]
            for name, fs in byprog.items():
                big = {n: f for n, f in fs.items() if n >= 4}
                if len(set(big.values())) > 1:
                    rp = save_replay("C10", "growth-%s-%s" % (be, name), {"backend": be, "program": name, "frontier_by_n": fs})
                    viols.append({"signature": "C10:%s:growth:%s" % (be, name), "replay": rp,
                                  "what": "%s on %s: allocation frontier grows with the number of iterations %s" % (name, be, fs)})
            stats.setdefault(be, {})["loop_frontiers"] = byprog
        return viols
    plan = T(tier, [("objects", 80), ("base", 60), ("noprint", 40)], [("objects", 1500), ("base", 1500), ("noprint", 800)])
    mc = mc_heap("C10", tier, "Footprint", emit_histories=True)
    directed, expect = history_directed("C10", tier, mc)
    conf = design_conformance("C10", expect)
    return lockstep.lockstep_check(
        "C10", tier, ["x86", "a64", "rv64"], plan, extra_viols=mc["viols"], directed=directed,
        extra_cov={"design_model": {"module": "spec/AxCutHeap.tla", "invariant": "Footprint (frontier <= peak reachable + 1)", "distinct_states": mc["states"],
                                    "states_generated": mc["transitions"], "notes": mc["notes"]}}, maxsteps=T(tier, 60000, 1500000), nblocks=160, timeout=T(tier, 900, 7000),
        extra=loops_extra(tier), post=lambda *a: same_frontier(*a) + conf(*a), level="model_checking", skip_counts=True,
        extra_rule="Footprint: frontier <= peak reachable blocks + 2 at every statement boundary; build-and-drop loops "
                   "(corpus/loops) run with n = 0,1,4,16(,64,256) iterations and must end with the same frontier for n >= 4; "
                   "the allocator design model's mutator histories (BFS sample and every random deep history of the TLC "
                   "simulation) replayed as linear programs, also with 6 and 13 padding variables so that block pointers live "
                   "in spill slots")


def check_C09(tier):
    plan = T(tier, [("objects", 90), ("base", 70), ("spill", 30), ("noprint", 40)], [("objects", 2000), ("base", 1500), ("spill", 600), ("noprint", 800)])
    mc = mc_heap("C09", tier, "HeapConsistent", emit_histories=True)
    directed, expect = history_directed("C09", tier, mc)
    # explicit substitutions that copy (share n times) and drop (erase) objects on both sides of each backend's register/spill boundary
    objpats = lambda n: [k for k in itertools.product("eo", repeat=n) if "o" in k]
    directed += GL.fam_subst_exhaustive(2, T(tier, 3, 4), [0, 5, 6, 12, 13], kind_patterns=objpats) + GL.fam_subst_random(rng_for("C09s"), T(tier, 120, 3000))
    return lockstep.lockstep_check(
        "C09", tier, ["x86", "a64", "rv64"], plan, extra_viols=mc["viols"], directed=directed,
        extra_cov={"design_model": {"module": "spec/AxCutHeap.tla", "invariant": "HeapConsistent (HeapInv in every reachable state)", "distinct_states": mc["states"],
                                    "states_generated": mc["transitions"], "notes": mc["notes"]}}, maxsteps=T(tier, 20000, 200000), nblocks=160, timeout=T(tier, 900, 7000),
        extra=loops_extra("quick"), level="model_checking", post=design_conformance("C09", expect),
        extra_rule="HeapInv (spec/HeapInv.tla) evaluated on the concrete heap words and registers at every statement marker; "
                   "MemInBounds at every instruction; plus replay of the allocator design model's mutator histories (spec/AxCutHeap.tla, "
                   "every let/dup/drop/switch sequence up to the level bound, sampled in the quick tier, and the random deep histories of "
                   "the simulation) as linear programs through the real backends, also with 6 and 13 padding variables (block "
                   "pointers in spill slots on x86-64 / AArch64)")


def check_C11(tier):
    # design level: the parallel-move algorithm with the three backends' scratch handling, all assignments over N temporaries
    n = T(tier, 5, 6)
    open(os.path.join(SPEC, "ParMoves_run.cfg"), "w").write("SPECIFICATION Spec\nCONSTANT N = %d\nINVARIANT Correct\nCHECK_DEADLOCK FALSE\n" % n)
    pm = run_tlc("ParMoves", "ParMoves_run.cfg", os.path.join(WORK, "C11-design"), {}, workers=8, timeout=T(tier, 600, 7000), xmx="12g")
    ptxt = open(pm["out"]).read()
    design_viols = []
    if "violated" in ptxt:
        rp = save_replay("C11", "design-parmoves", {"tlc_output": ptxt[-5000:]})
        design_viols.append({"signature": "C11:design:parallel-moves", "replay": rp, "what": "spec/ParMoves.tla: the parallel-move design violates SimultaneousAssignment / OnlyScratchClobbered"})
    elif pm["rc"] != 0 or pm["states"] is None:
        raise ToolError("ParMoves did not complete: %s" % (pm["errors"][:2] or ptxt[-300:]))
    r = rng_for("C11")
    if tier == "quick":
        directed = GL.fam_subst_exhaustive(3, 3, [0, 4, 5, 11, 12]) + GL.fam_subst_random(r, 300)
    else:
        def pats(n):
            import itertools
            if n <= 3:
                return list(itertools.product("eo", repeat=n))
            return [tuple("e" * n), tuple("o" * n), tuple(("eo" * n)[:n]), tuple(("oe" * n)[:n])]
        directed = GL.fam_subst_exhaustive(4, 4, [0, 3, 4, 5, 10, 11, 12], kind_patterns=pats) + GL.fam_subst_random(r, 4000)
    return lockstep.lockstep_check(
        "C11", tier, ["x86", "a64", "rv64"], [], maxsteps=4000, timeout=T(tier, 900, 7000), directed=directed,
        with_examples=False, level="model_checking", extra_viols=design_viols,
        extra_cov={"design_model": {"module": "spec/ParMoves.tla", "N": n, "assignments_x_spillsets_x_backends": pm["distinct"], "exhaustive": True}},
        extra_rule="every map from m new variables to n old ones (quick m,n<=3; thorough m,n<=4), every kind assignment "
                   "(patterns above 3), window offsets across each backend's register/spill boundary; the marker after the "
                   "substitution compares every new variable with the simultaneous assignment of the AxCut machine and "
                   "HeapInv checks that copies raised and drops released the reference counts exactly")
lockstep.TAGS["C11"] = {"control", "env", "result", "value", "undef", "heap", "mem", "axcut", "leak"}


# ---------------------------------------------------------------------------------------------- stage checks
import stages


def check_C02(tier):
    k = T(tier, 1, 12)
    stages.EFFECTS_LIMIT = 0     # effects in unsequenced argument positions are outside C02's fragment by its own statement
    plan = [dict(n=180 * k, mode="seq", pressure=True, twins=True, budget=(8, 26), tag="press"),
            dict(n=80 * k, mode="seq", pressure=False, budget=(8, 30), wide=True, tag="plain")]
    return stages.stage_check(
        "C02", tier, [("fun", "core")], ["core"], plan, maxsteps=T(tier, 6000, 20000), capture_twins=True,
        adversarial_labels=T(tier, 60, 600),
        rule="Fun machine vs Core machine on the real compile_prog output (effects only in sequenced positions); Core output "
             "walked by spec/CoreTyping.tla; programs with heavy name reuse (let/pattern/label binders, generated-looking "
             "names) and their alpha-renamed twins whose binders are all distinct and look compiler-generated: a failure "
             "that the twin does not show is name capture, a failure of a twin is always new. Adaptive adversarial labels: a "
             "sample of programs is recompiled with a user definition named exactly like a label the compiler generated "
             "(appended and prepended).")


def check_C03(tier):
    k = T(tier, 1, 12)
    plan = [dict(n=200 * k, mode="any", pressure=False, budget=(8, 30), tag="any"),
            dict(n=80 * k, mode="any", pressure=True, twin=True, budget=(8, 24), tag="anytw"),
            # heavy shadowing: the inputs whose Core translation is well-typed (hypothesis) exercise uniquification
            dict(n=200 * k, mode="any", pressure=True, budget=(8, 26), tag="shadow")]
    return stages.stage_check(
        "C03", tier, [("core", "coreuniq"), ("core", "corefs")], ["coreuniq", "corefs"], plan, own_hyp="core",
        maxsteps=T(tier, 6000, 20000),
        rule="Core machine with dynamic focusing on the unfocused translation output vs the same machine on the uniquified and "
             "on the focused program (effects in every argument position); walker in mode unique: binders distinct along "
             "every path, ids non-zero and <= max_id, well-typed.")


def check_C04(tier):
    k = T(tier, 1, 12)
    plan = [dict(n=220 * k, mode="any", pressure=False, budget=(8, 30), wide=True, tag="any"),
            dict(n=60 * k, mode="seq", pressure=True, twin=True, budget=(8, 24), tag="tw")]
    return stages.stage_check(
        "C04", tier, [("corefs", "axcut")], ["axcut"], plan, own_hyp="corefs", maxsteps=T(tier, 6000, 20000),
        rule="Core machine on the focused program vs AxCut machine (named mode) on the real shrink_prog output; AxCut output "
             "walked by spec/AxCutTyping.tla (chirality collapse, clause order, lifted definitions called with their free "
             "variables).")


def check_C05(tier):
    k = T(tier, 1, 12)
    plan = [dict(n=160 * k, mode="any", pressure=False, budget=(8, 30), wide=True, tag="any")]
    ax = [("base", 100 * k), ("spill", 40 * k), ("objects", 40 * k)]
    return stages.stage_check(
        "C05", tier, [("axcut", "axcutlin")], ["axcutlin"], plan, axcut_plan=ax, own_hyp="axcut", maxsteps=T(tier, 6000, 20000),
        level="model_checking",
        rule="(i) all-paths walk of the linearised program (spec/AxCutTyping.tla, mode linear): ContextExact per statement "
             "kind, KindsAgree, SubstituteWellFormed; (ii) AxCut machine in named mode on the input vs positional mode on the "
             "real linearize output. Inputs: shrink_prog outputs of generated Fun programs and directly generated non-linear "
             "AxCut programs.")


# ---------------------------------------------------------------------------------------------- C01 (native)
def check_C01(tier):
    # the effect-order corpus has effects in unsequenced argument positions; the source semantics of C01 (eager integers and
    # data, by-name codata) does not fix their order (C02 excludes them explicitly), so C01 does not judge them
    stages.EFFECTS_LIMIT = 0
    import native, equiv, collections, time
    t0 = time.time()
    build_harness()
    work = fresh_dir(WORK, "C01")
    k = T(tier, 1, 60)
    plan = [dict(n=90 * k, mode="seq", pressure=False, budget=(8, 30), wide=True, max_main_params=5, tag="plain"),
            dict(n=50 * k, mode="seq", pressure=True, twins=True, budget=(8, 24), tag="press")]
    art, index, args, meta = stages.build(work, plan, emit="fun,x86")
    nat = native.Native(work)
    jobs, skipped = [], collections.Counter()
    for n, e in index.items():
        so = [s for s in e["stages"] if s["stage"] == "x86"]
        if not so:
            skipped["rejected-or-earlier-stage-failed"] += 1
            continue
        if so[0]["outcome"] != "ok":
            skipped["capacity" if any(m in so[0]["msg"] for m in lockstep.CAPACITY_MSGS) else "backend-panic"] += 1
            continue
        # a third, large-magnitude argument tuple (arguments must reach main unchanged)
        al = list(args[n])
        if e["nargs"]:
            r = rng_for("C01" + (n[:-5] if n.endswith("_twin") else n))   # a program and its twin get the same tuples
            al.append([r.choice([2147483648, -2147483649, 1311768467463790320, -9223372036854775807, 4294967296]) for _ in range(e["nargs"])])
        args[n] = al
        jobs.append((n, open(os.path.join(art, n + ".x86.asm")).read(), e["nargs"], al))
    res = nat.build_and_run(jobs)
    progs, pidx, cases, viols, stats = [], {}, [], [], collections.Counter(skipped)
    for n, text, nargs, al in jobs:
        r = res[n]
        if not r["assembled"] or not r.get("linked"):
            stats["not-assembled"] += 1
            diag = " | ".join(sorted({re_sub_line(l) for l in r["diag"].splitlines() if "Error" in l or "error" in l}))[:160]
            rp = save_replay("C01", "asm-" + n, {"program": n, "source": meta[n].get("src"), "diag": r["diag"], "asm": text})
            viols.append({"signature": "C01:asm:" + lockstep.normalize_why(diag), "what": "%s: emitted assembly rejected: %s" % (n, diag), "replay": rp})
            continue
        progs.append({"name": n, "prog": equiv.load_stage(art, n, "fun")})
        pidx[n] = len(progs)
        for a in al:
            key = ",".join(map(str, a))
            cases.append({"name": "%s@%s" % (n, key), "p": pidx[n], "args": [equiv.limbs(x) for x in a], "argv": [str(x) for x in a],
                          "native": {"ran": r["runs"][key]["ran"], "stdout": r["runs"][key]["stdout"], "status": r["runs"][key]["status"]}})
    # TLC reads the programs as one constant: runs of at most 300 programs (cases re-indexed per run)
    r = None
    for ci in range(0, max(1, len(progs)), 300):
        sub = progs[ci:ci + 300]
        subcases = [dict(c, p=c["p"] - ci) for c in cases if ci < c["p"] <= ci + 300]
        if not subcases:
            continue
        wd = os.path.join(work, "tlc%d" % (ci // 300))
        os.makedirs(wd, exist_ok=True)
        paths = {}
        for nm, obj in (("progs", sub), ("cases", subcases), ("cfg", {"maxsteps": T(tier, 8000, 30000)})):
            paths[nm] = os.path.join(wd, nm + ".json")
            json.dump(obj, open(paths[nm], "w"))
        rr = tlc_batch("Source", "Source.cfg", wd, {"SCCV_PROGS": paths["progs"], "SCCV_CASES": paths["cases"], "SCCV_CFG": paths["cfg"]},
                       len(subcases), timeout=T(tier, 900, 7000))
        if r is None:
            r = rr
        else:
            r["results"] += rr["results"]
            for k_ in ("states", "distinct", "wall"):
                r[k_] = (r[k_] or 0) + (rr[k_] or 0)
    if r is None:
        raise ToolError("no program reached the native stage")
    byname = {x["case"]: x for x in r["results"]}
    natof = {c["name"]: c["native"] for c in cases}
    samples = []
    for x in r["results"]:
        stats[x["status"] + (":" + x["tag"] if x["tag"] and x["status"] != "fail" else "")] += 1
        if x["status"] == "tool":
            raise ToolError(x["why"])
        if x["status"] != "fail":
            continue
        n, _, av = x["case"].partition("@")
        tw = meta.get(n, {}).get("twin")
        twres = byname.get("%s@%s" % (tw, av)) if tw else None
        cap = twres is not None and twres["status"] in ("agree", "excluded")
        sig = "C01:capture:%s" % x["tag"] if cap else "C01:%s:%s" % (x["tag"], lockstep.normalize_why(x["why"]))
        rp = save_replay("C01", x["case"], {"case": x["case"], "source": meta.get(n, {}).get("src"), "argv": av, "predicted_stdout": x["expected"],
                                            "predicted_status": x["expstatus"], "native": natof[x["case"]]})
        viols.append({"signature": sig, "replay": rp, "what": "%s: %s (predicted %r/%d, native %r/%s)" % (
            x["case"], x["why"], x["expected"][:60], x["expstatus"], natof[x["case"]]["stdout"][:60], natof[x["case"]]["status"])})
    for x in sorted([y for y in r["results"] if y["status"] == "agree"], key=lambda y: -y["steps"])[:3]:
        n = x["case"].partition("@")[0]
        samples.append({"case": x["case"], "source_steps": x["steps"], "stdout": x["expected"][:200], "exit_status": x["expstatus"],
                        "source": (meta.get(n, {}).get("src") or "")[:500]})
    sviols, scases, sr = check_surface(work, nat, tier)
    viols += sviols
    stats["surface-syntax-cases"] = scases
    log("[C01] %s" % dict(stats))
    new = triage("C01", viols)
    write_evidence("C01", tier, "translation_validation",
                   {"programs": len(progs), "disagreements_checked": len(cases), "samples": samples or [{"note": "no agreeing case"}],
                    "states": r["distinct"], "transitions": r["states"], "outcomes": dict(stats),
                    "rule": "generated well-typed Fun programs (effects in sequenced positions) + repository examples; real pipeline to "
                            "x86-64 text, GNU as, the repository's C driver and io.c, a real process; stdout bytes and exit status "
                            "compared inside TLC with RenderOut/ExitStatus of spec/Runtime.tla applied to the run of spec/FunMachine.tla; "
                            "surface syntax: every spelling of every comparison (two operands, fused zero tests on either side, literals, "
                            "tight spacing) and arithmetic operator compiled, run natively and judged by spec/Surface.tla from the "
                            "operand values the spelling denotes (independent of the implementation's parser)"},
                   time.time() - t0, len(viols),
                   assumptions=["NASM->GAS transliteration (lib/native.py) only touches syntax", "spec/FunMachine.tla is the source semantics (validated on the repository's expected outputs)"])
    return 1 if new else 0


def surface_family():
    """-> list of (program name, source, [arg tuples], [(op, left, right, text)]) : one println per entry; left/right are "n", "m"
    or an integer: the operand *values* follow from the spelling the driver wrote, not from anybody's parser"""
    cmp_ops, ar_ops, dv_ops = ["==", "!=", "<", "<=", ">", ">="], ["+", "-", "*"], ["/", "%"]
    def sp(l, op, r, tight=False):
        return ("%s%s%s" if tight else "%s %s %s") % (l, op, r)
    def entries(ops, lits):
        out = []
        for op in ops:
            forms = [("n", "m", sp("n", op, "m")), ("m", "n", sp("m", op, "n")), ("n", "n", sp("n", op, "n"))]
            for k in lits:
                ks = str(k) if k >= 0 else "-%d" % -k
                forms += [("n", k, sp("n", op, ks)), (k, "n", sp(ks, op, "n"))]
                if k == 0:
                    forms += [("n", 0, sp("n", op, "0", True)), (0, "n", sp("0", op, "n", True)), ("n", 0, sp("n", op, "(0)")), (0, "n", sp("(0)", op, "n")),
                              ("m", 0, "m  %s  0" % op), (0, "m", "0  %s  m" % op)]
            out += [(op, l, r, t) for l, r, t in forms]
        return out
    # structure: which argument / field / binder / branch is which (each expression denotes n - m or m - n by construction)
    decl = ("data Pair { Tup(a: i64, b: i64) }\ndata Lst { Nil, Cons(h: i64, t: Lst) }\ncodata Fn { ap(x: i64, y: i64): i64, fst: i64, snd: i64 }\n"
            "def sub2(x: i64, y: i64): i64 { x - y }\ndef sub3(x: i64, k :cns i64, y: i64): i64 { goto k (x - y) }\n"
            "def mk(p: i64, q: i64): Fn { new { ap(x, y) => x - y, fst => p, snd => q } }\n")
    structure = [("-", "n", "m", t) for t in (
        "sub2(n, m)", "label k { sub3(n, k, m) }", "Tup(n, m).case { Tup(a, b) => a - b }", "Tup(m, n).case { Tup(a, b) => b - a }",
        "Cons(n, Cons(m, Nil)).case { Nil => 0, Cons(h, t) => t.case { Nil => 0, Cons(h2, t2) => h - h2 } }",
        "Cons(n, Nil).case { Cons(h, t) => h - m, Nil => 0 }", "Nil.case { Cons(h, t) => 0, Nil => n - m }",
        "mk(0, 0).ap(n, m)", "(mk(n, m).fst) - (mk(n, m).snd)", "new { ap(x, y) => y - x, fst => 0, snd => 0 }.ap(m, n)",
        "let a: i64 = n; let b: i64 = m; a - b", "let a: i64 = m; let a: i64 = n; a - m", "if n == n { n - m } else { m - n }",
        "if n != n { m - n } else { n - m }", "label k { (goto k (n - m)) + 1 }", "label k { if 0 == 0 { goto k (n - m) } else { 0 } }",
        "(n) - (m)", "((n - m))", "n - (m)", "let f: Fn = mk(n, m); (f.fst) - (f.snd)")]
    progs = [("surf_structure", decl + "def main(n: i64, m: i64): i64 { %s0 }\n" % "".join("println_i64(%s); " % t for _, _, _, t in structure),
              [[-3, 5], [5, -3], [0, 7], [9, 0], [-9223372036854775808, 1]], structure)]
    tuples = [[-3, 5], [5, -3], [0, 0], [7, 7], [0, 1], [1, 0], [-1, -1], [9223372036854775807, -9223372036854775808], [-9223372036854775808, 1]]
    nz = [[-7, 2], [7, -2], [-7, -2], [7, 2], [1, 9223372036854775807], [-9223372036854775808, 3], [100, 7]]
    for name, ents, tl, wrap in (("cmp", entries(cmp_ops, [0, 7, -7]), tuples, "if %s { 1 } else { 0 }"),
                                 ("arith", entries(ar_ops, [0, 3, -3, 4294967296]), tuples, "%s"),
                                 ("divrem", [e for e in entries(dv_ops, [3, -3, 2]) if e[2] != 0], nz, "%s")):
        for ci in range(0, len(ents), 24):
            chunk = ents[ci:ci + 24]
            body = "".join("println_i64(%s); " % (wrap % t) for _, _, _, t in chunk)
            progs.append(("surf_%s_%d" % (name, ci // 24), "def main(n: i64, m: i64): i64 { %s0 }\n" % body, tl, chunk))
    return progs


def check_surface(work, nat, tier):
    """C01, surface syntax: natively executed one-liners judged by spec/Surface.tla -> (violations, number of cases)"""
    import equiv
    fam = surface_family()
    lp = os.path.join(work, "surface.json")
    json.dump([{"name": n, "kind": "fun", "src": src} for n, src, _, _ in fam], open(lp, "w"))
    art = os.path.join(work, "surf-art")
    sccv("pipeline", lp, art, "x86")
    idx = {c["name"]: c for c in json.load(open(os.path.join(art, "index.json")))}
    jobs = []
    for n, src, tl, chunk in fam:
        if not os.path.exists(os.path.join(art, n + ".x86.asm")):
            raise ToolError("surface family program %s does not compile: %s" % (n, [s_ for s_ in idx[n]["stages"] if s_["outcome"] != "ok"][:1]))
        jobs.append((n, open(os.path.join(art, n + ".x86.asm")).read(), 2, tl))
    res = nat.build_and_run(jobs)
    cases, viols = [], []
    for n, src, tl, chunk in fam:
        for a in tl:
            run = res[n]["runs"].get(",".join(map(str, a)))
            lines = run["stdout"].split("\n")[:-1] if run and run["ran"] else []
            if not run or not run["ran"] or run["status"] != 0 or len(lines) != len(chunk):
                rp = save_replay("C01", "surface-%s" % n, {"program": n, "source": src, "argv": a, "native": run})
                viols.append({"signature": "C01:surface:run", "replay": rp, "what": "%s@%s: the executable did not print one line per expression and exit with 0" % (n, a)})
                continue
            env = {"n": a[0], "m": a[1]}
            for (op, l, r, text), line in zip(chunk, lines):
                cases.append({"name": "%s@%s:%s" % (n, ",".join(map(str, a)), text), "op": op, "a": equiv.limbs(env.get(l, l)), "b": equiv.limbs(env.get(r, r)),
                              "observed": equiv.limbs(int(line)), "text": "`%s` with n = %d, m = %d (printed %s)" % (text, a[0], a[1], line)})
    wd = os.path.join(work, "surface-tlc")
    os.makedirs(wd, exist_ok=True)
    cp = os.path.join(wd, "cases.json")
    json.dump(cases, open(cp, "w"))
    r = tlc_batch("Surface", "Surface.cfg", wd, {"SCCV_CASES": cp}, len(cases), timeout=900)
    for x in r["results"]:
        if x["status"] == "fail":
            form = x["case"].split(":", 1)[1]
            rp = save_replay("C01", "surface-" + re.sub(r"\W+", "_", x["case"])[:80], x)
            viols.append({"signature": "C01:surface:%s" % lockstep.normalize_why(form), "replay": rp, "what": x["why"]})
    shutil.rmtree(art, ignore_errors=True)
    return viols, len(cases), r


def re_sub_line(l):
    import re
    return re.sub(r"^[^:]*:\d+:\s*", "", l).strip()


# ---------------------------------------------------------------------------------------------- C20 (runtime contract)
I64_VALUES = sorted(set(
    [0, 1, -1, 9, 10, -9, -10, 99, 100, 255, 256, -255, -256, (1 << 31) - 1, 1 << 31, -(1 << 31), -(1 << 31) - 1, (1 << 32) - 1, 1 << 32,
     -(1 << 32), (1 << 63) - 1, -(1 << 63), -(1 << 63) + 1, 1234567890123456789, -1234567890123456789]
    + [10 ** k for k in range(19)] + [-(10 ** k) for k in range(19)] + [10 ** k - 1 for k in range(1, 19)]
    + [1 << k for k in range(0, 63, 7)] + [-(1 << k) for k in range(0, 64, 7)]))


def check_C20(tier):
    import native, equiv, collections, time, subprocess
    t0 = time.time()
    build_harness()
    work = fresh_dir(WORK, "C20")
    r = rng_for("C20")
    vals = list(I64_VALUES) + [r.randrange(-(1 << 63), 1 << 63) for _ in range(T(tier, 40, 2000))]
    nat = native.Native(work)
    viols, stats = [], collections.Counter()
    # ---- (c) io.c stand-alone: one process per value and primitive
    tdir = os.path.join(work, "io")
    os.makedirs(tdir, exist_ok=True)
    open(os.path.join(tdir, "t.c"), "w").write(
        '#include <stdint.h>\n#include <stdio.h>\n#include <stdlib.h>\n#include <string.h>\n#include <unistd.h>\nvoid print_i64(int64_t) asm("print_i64");\n'
        'void println_i64(int64_t) asm("println_i64");\n'
        'int main(int c, char **v) { for (int i = 2; i < c; i++) { int64_t x = (int64_t)strtoull(v[i], 0, 10); '
        # the runtime may buffer its output (stdio): flush before the raw separator so that the order on the pipe is the call order
        'if (v[1][0] == \'l\') println_i64(x); else print_i64(x); fflush(stdout); write(1, "|", 1); } return 0; }\n')
    r0 = subprocess.run(["gcc", "-w", "-o", os.path.join(tdir, "t"), os.path.join(tdir, "t.c"), nat.ioobj], stdout=subprocess.PIPE, stderr=subprocess.STDOUT, text=True)
    if r0.returncode != 0:
        raise ToolError("cannot build the io.c test driver: " + r0.stdout)
    obs = []
    for callee, flag in (("print_i64", "p"), ("println_i64", "l")):
        for i in range(0, len(vals), 50):
            chunk = vals[i:i + 50]
            pr = subprocess.run([os.path.join(tdir, "t"), flag] + [str(v % (1 << 64)) for v in chunk], stdout=subprocess.PIPE, timeout=20)
            parts = pr.stdout.decode("latin-1").split("|")[:-1]
            if len(parts) != len(chunk):
                parts = (parts + ["<missing>"] * len(chunk))[:len(chunk)]
            for v, o in zip(chunk, parts):
                obs.append({"name": "%s(%d)" % (callee, v), "kind": "print", "callee": callee, "w": equiv.limbs(v), "stdout": o, "status": 0})
    # ---- (a) native one-liners: arguments reach main unchanged and in order, exit status = low 8 bits
    progs = []
    for n in range(0, 6):
        ps = ", ".join("a%d: i64" % i for i in range(n))
        body = "".join("%s(a%d); " % ("println_i64" if i % 2 == 0 else "print_i64", i) for i in range(n))
        ret = "a%d" % (n - 1) if n else "300"
        progs.append(("arity%d" % n, "def main(%s): i64 { %s%s }\n" % (ps, body, ret)))
    lst = [{"name": nm, "kind": "fun", "src": src} for nm, src in progs]
    lp = os.path.join(work, "list.json")
    json.dump(lst, open(lp, "w"))
    art = os.path.join(work, "art")
    sccv("pipeline", lp, art, "fun,x86")
    index = {c["name"]: c for c in json.load(open(os.path.join(art, "index.json")))}
    jobs, argsof = [], {}
    for nm, src in progs:
        n = index[nm]["nargs"]
        tuples = [[r.choice(vals) for _ in range(n)] for _ in range(T(tier, 12, 200))] if n else [[]]
        tuples.append([vals[(7 * i) % len(vals)] for i in range(n)])
        argsof[nm] = tuples
        jobs.append((nm, open(os.path.join(art, nm + ".x86.asm")).read(), n, tuples))
    res = nat.build_and_run(jobs)
    sprogs, cases = [], []
    for nm, text, n, tuples in jobs:
        rr = res[nm]
        if not rr["assembled"] or not rr.get("linked"):
            raise ToolError("cannot build %s natively: %s" % (nm, rr["diag"]))
        sprogs.append({"name": nm, "prog": equiv.load_stage(art, nm, "fun")})
        for a in tuples:
            key = ",".join(map(str, a))
            cases.append({"name": "%s@%s" % (nm, key), "p": len(sprogs), "args": [equiv.limbs(x) for x in a], "argv": [str(x) for x in a],
                          "native": {"ran": rr["runs"][key]["ran"], "stdout": rr["runs"][key]["stdout"], "status": rr["runs"][key]["status"]}})
        # ---- (b) wrong number of arguments
        for wrong in sorted({n + 1, max(0, n - 1)} - {n}):
            b = os.path.join(nat.dir, nm + ".bin")
            pr = subprocess.run([b] + ["1"] * wrong, stdout=subprocess.PIPE, stderr=subprocess.PIPE, timeout=10)
            so = pr.stdout.decode("latin-1")
            trailing_nul = so.endswith("\x00")
            obs.append({"name": "%s with %d arguments" % (nm, wrong), "kind": "arity", "callee": "", "w": [0, 0, 0, 0],
                        "stdout": so.rstrip("\x00"), "stderr": pr.stderr.decode("latin-1")[:200], "status": pr.returncode,
                        "ranlike": any(re.fullmatch(r"-?\d+", tok) for tok in so.split())})
            if trailing_nul:
                stats["arity message carries a trailing NUL byte (tolerated: the message itself is reported)"] += 1
    wd = os.path.join(work, "tlc")
    os.makedirs(wd, exist_ok=True)
    p = {}
    for nm, obj in (("progs", sprogs), ("cases", cases), ("cfg", {"maxsteps": 5000}), ("obs", obs)):
        p[nm] = os.path.join(wd, nm + ".json")
        json.dump(obj, open(p[nm], "w"))
    r1 = tlc_batch("Source", "Source.cfg", wd, {"SCCV_PROGS": p["progs"], "SCCV_CASES": p["cases"], "SCCV_CFG": p["cfg"]}, len(cases), timeout=1500)
    r2 = tlc_batch("RuntimeCheck", "RuntimeCheck.cfg", os.path.join(wd, "rt"), {"SCCV_CASES": p["obs"]}, len(obs), timeout=3000)
    natof = {c["name"]: c["native"] for c in cases}
    for x in r1["results"]:
        stats["native:" + x["status"]] += 1
        if x["status"] == "tool":
            raise ToolError(x["why"])
        if x["status"] == "fail":
            rp = save_replay("C20", x["case"], {"case": x["case"], "predicted_stdout": x["expected"], "predicted_status": x["expstatus"], "native": natof[x["case"]]})
            viols.append({"signature": "C20:native:%s" % x["tag"], "replay": rp,
                          "what": "%s: %s (predicted %r/%d, native %r/%s)" % (x["case"], x["why"], x["expected"][:50], x["expstatus"], natof[x["case"]]["stdout"][:50], natof[x["case"]]["status"])})
    for x in r2["results"]:
        stats["runtime:" + x["status"]] += 1
        if x["status"] == "fail":
            rp = save_replay("C20", x["case"], x)
            kind = "arity" if "arguments" in x["case"] else ("print-min" if "(-9223372036854775808)" in x["case"] else "print")
            viols.append({"signature": "C20:%s" % kind, "replay": rp, "what": "%s: %s" % (x["case"], x["why"][:160])})
    # ---- (d) AArch64 / x86-64 argument shuffle on the ISA machines
    art2, index2, args2 = lockstep.build_batch(os.path.join(work, "shuffle"), [], with_examples=False, directed=GL.fam_arity(7))
    lsviol, shuffle_states = [], 0
    for be in ("a64", "x86"):
        rr, cs, sk = lockstep.run_backend("C20", art2, index2, args2, be, os.path.join(work, "shuffle"), 4000, 32, 900)
        shuffle_states += rr["distinct"]
        for x in rr["results"]:
            stats["shuffle-%s:%s" % (be, x["status"])] += 1
            if x["status"] == "fail" and x["tag"] != "tool":
                rp = save_replay("C20", "shuffle-%s-%s" % (be, x["case"]), x)
                viols.append({"signature": "C20:shuffle:%s:%s" % (be, x["tag"]), "replay": rp, "what": "%s on %s: %s" % (x["case"], be, x["why"])})
    log("[C20] %s" % dict(stats))
    new = triage("C20", viols)
    write_evidence("C20", tier, "model_checking",
                   {"states": r1["distinct"] + r2["distinct"] + shuffle_states, "transitions": r1["states"] + r2["states"],
                    "traces_validated_against_impl": len(cases) + len(obs),
                    "samples": [{"observation": o["name"], "stdout": o["stdout"]} for o in obs[:3]] + [{"case": c["name"], "native": c["native"]} for c in cases[-2:]],
                    "values": len(vals), "outcomes": dict(stats),
                    "rule": "io.c print primitives called stand-alone on boundary/power/random i64 values; one-line programs with 0..5 "
                            "parameters run natively with random boundary tuples; wrong argument counts; argument shuffle of "
                            "into_routine on the A64 (0..7) and X86 (0..5) machines; all judged by spec/Runtime.tla in TLC"},
                   time.time() - t0, len(viols), assumptions=["gcc and glibc of this sandbox", "spec/Word64.tla ToDecimal (validated against Rust by the Word64 conformance test)"])
    return 1 if new else 0


# ---------------------------------------------------------------------------------------------- C17 (determinism)
def check_C17(tier):
    import re, time, collections, subprocess
    t0 = time.time()
    build_harness()
    work = fresh_dir(WORK, "C17")
    # 1. TLC enumerates all request histories of the abstract driver model
    cfg = open(os.path.join(SPEC, "MC_Pipeline.cfg")).read().replace("MaxLen = 3", "MaxLen = %d" % T(tier, 3, 4))
    open(os.path.join(SPEC, "MC_Pipeline_run.cfg"), "w").write(cfg)
    r = run_tlc("MC_Pipeline", "MC_Pipeline_run.cfg", os.path.join(work, "mc"), {}, workers=8, timeout=1500)
    if r["states"] is None or r["rc"] != 0:
        raise ToolError("MC_Pipeline did not complete: %s" % r["errors"][:2])
    hists = []
    for line in open(r["out"]):
        if line.startswith('"HISTORY '):
            hists.append(tuple(tuple(q) for q in json.loads(json.loads(line.strip())[len("HISTORY "):])))
    hists = sorted(set(hists))
    if len(hists) != 16 ** T(tier, 3, 4):
        raise ToolError("expected %d histories, TLC printed %d" % (16 ** T(tier, 3, 4), len(hists)))
    if not hists:
        raise ToolError("no histories enumerated")
    srcs = {"p1": os.path.join(VERIF, "corpus", "det", "poly.sc"), "p2": os.path.join(VERIF, "corpus", "det", "small.sc")}
    # the same two texts as two files with the *same file name* in different directories (what a Driver compiled before must
    # not leak into a later request, whatever the files are called): used by every even-numbered process
    same = {}
    for k, d in (("p1", "a"), ("p2", "b")):
        os.makedirs(os.path.join(work, "src", d), exist_ok=True)
        same[k] = os.path.join(work, "src", d, "prog.sc")
        shutil.copy(srcs[k], same[k])
    # 2. replay: process A all histories, further processes a sample (other hash seeds), one with the sources swapped
    rng = rng_for("C17")
    nproc = T(tier, 4, 8)
    logs = []
    for pi in range(nproc):
        hs = hists if pi == 0 else rng.sample(hists, min(len(hists), T(tier, 300, 3000)))
        spec = {"sources": same if pi % 2 == 0 else srcs, "histories": [[list(q) for q in h] for h in hs]}
        sp = os.path.join(work, "spec%d.json" % pi)
        json.dump(spec, open(sp, "w"))
        lp = os.path.join(work, "log%d.ndjson" % pi)
        sccv("driver-replay", sp, os.path.join(work, "cwd%d" % pi), lp, timeout=3000)
        logs.append([json.loads(l) for l in open(lp)])
    # 2b. many program shapes, each stage, three processes: the whole pipeline over generated programs and the corpus is run by
    # three separate harness processes (fresh hash seeds); every dumped stage and every assembly text (labels renamed by first
    # appearance) is hashed and enters the same trace validation: process 0 defines the reference, the others must reproduce it
    import hashlib, gen_fun

    def canon(text):
        labs = []
        for m in re.finditer(r"^\s*([A-Za-z_.$][\w.$]*):", text, re.M):
            if m.group(1) not in labs:
                labs.append(m.group(1))
        idx = {l: "L%d" % i for i, l in enumerate(labs)}
        return re.sub(r"[A-Za-z_.$][\w.$]*", lambda m: idx.get(m.group(0), m.group(0)), text)
    stages.EFFECTS_LIMIT = T(tier, 4, None)
    glist = [c for c, _ in stages.corpus_cases()]
    for nm, src, a in gen_fun.generate(seed() * 1000 + 17, T(tier, 90, 1500), mode="any", pressure=False, budget=(8, 30), wide=True):
        glist.append({"name": "gp_" + nm, "kind": "fun", "src": src})
    gl = os.path.join(work, "gen-list.json")
    json.dump(glist, open(gl, "w"))
    exts = ["core.json", "coreuniq.json", "corefs.json", "axcut.json", "axcutlin.json", "x86.asm", "a64.asm", "rv64.asm"]
    for gi in range(3):
        ga = os.path.join(work, "gen-art%d" % gi)
        sccv("pipeline", gl, ga, "core,coreuniq,corefs,axcut,axcutlin,x86,a64,rv64", timeout=3000)
        evs = []
        for c in glist:
            for ext in exts:
                fp_ = os.path.join(ga, "%s.%s" % (c["name"], ext))
                if os.path.exists(fp_):
                    t_ = open(fp_).read()
                    evs.append({"hist": "gen", "path": c["name"], "kind": ext.split(".")[0], "outcome": "ok",
                                "hash": hashlib.sha1((canon(t_) if ext.endswith(".asm") else t_).encode()).hexdigest()[:16]})
        shutil.rmtree(ga, ignore_errors=True)
        if gi == 0:
            logs[0] += evs
        else:
            logs.append(evs)
    # 3. reference = first occurrence in process 0; every log (process 0 included) is validated against it
    ref = {}
    for e in logs[0]:
        if e["outcome"] == "ok":
            ref.setdefault("%s|%s" % (e["path"], e["kind"]), e["hash"])
    traces = []
    for pi, lg in enumerate(logs):
        # one trace per chunk of events (keeps TLC's behaviours short); a chunk never splits a history
        chunk, cur = [], None
        for e in lg:
            if cur is not None and e["hist"] != cur and len(chunk) >= 600:
                traces.append({"name": "process%d-upto-history-%s" % (pi, cur), "kind": "history", "events": chunk, "facts": {"nargs": 0, "maxctx": 0, "hasprint": False}})
                chunk = []
            cur = e["hist"]
            chunk.append(e)
        if chunk:
            traces.append({"name": "process%d-upto-history-%s" % (pi, cur), "kind": "history", "events": chunk, "facts": {"nargs": 0, "maxctx": 0, "hasprint": False}})
    wd = os.path.join(work, "trace")
    os.makedirs(wd, exist_ok=True)
    cp = os.path.join(wd, "cfg.json")
    json.dump({"reference": ref or {"none|none": ""}}, open(cp, "w"))
    r2 = tlc_batch_chunked("TracePipeline", "TracePipeline.cfg", wd, traces, envkey="SCCV_CASES", extra_env={"SCCV_CFG": cp}, timeout=3000)
    viols, stats = [], collections.Counter()
    for x in r2["results"]:
        stats[x["status"]] += 1
        if x["status"] == "tool":
            raise ToolError(x["why"])
        if x["status"] != "accepted":
            m = re.search(r"content of (\S+) differs", x["why"])
            what = m.group(1) if m else lockstep.normalize_why(x["why"])
            rp = save_replay("C17", x["case"], {"trace": x["case"], "why": x["why"], "sources": srcs})
            viols.append({"signature": "C17:%s" % what, "what": x["why"], "replay": rp})
    nreq = sum(len(l) for l in logs)
    log("[C17] %d histories, %d processes, %d requests, %s" % (len(hists), nproc, nreq, dict(stats)))
    new = triage("C17", viols)
    write_evidence("C17", tier, "model_checking",
                   {"states": r["distinct"] + r2["distinct"], "transitions": r["states"] + r2["states"], "traces_validated_against_impl": nreq,
                    "samples": [{"history": [list(q) for q in hists[len(hists) // 3]]}, {"reference": dict(list(ref.items())[:3])}],
                    "histories": len(hists), "processes": nproc, "exhaustive": True,
                    "rule": "all request histories of length %d over 2 sources x 8 printable stages enumerated by TLC from spec/Pipeline.tla, "
                            "replayed on fresh Drivers in one process and samples of them in %d further processes (fresh hash seeds); every "
                            "recorded content hash (assembly modulo label renaming) validated by spec/TracePipeline.tla against the first "
                            "process' first answer; in addition the whole pipeline over generated programs and the corpus is run by three "
                            "separate processes and every stage dump / assembly text enters the same validation" % (T(tier, 3, 4), nproc - 1)},
                   time.time() - t0, len(viols), assumptions=["FNV-1a 64 hashes stand for contents", "label renaming = first-appearance order of defined labels"])
    return 1 if new else 0


# ---------------------------------------------------------------------------------------------- C12
def capacity_boundary_programs():
    out = []
    for n in range(0, 9):   # main with 0..8 parameters (limits: 5 on x86-64, 7 on AArch64)
        ps = ", ".join("a%d: i64" % i for i in range(n))
        body = " + ".join(["0"] + ["a%d" % i for i in range(n)]) if n < 2 else "(" * (n - 1) + "a0" + "".join(" + a%d)" % i for i in range(1, n))
        out.append(("cap_main%d" % n, "def main(%s): i64 { %s }\n" % (ps, body), [list(range(n))]))
    for k in (5, 6, 7, 12, 13, 14, 15, 16, 20):   # k simultaneously live variables (register files: 6 / 13 / 14)
        lets = "".join("let v%d: i64 = %d; " % (i, i + 1) for i in range(k))
        s = "v0"
        for i in range(1, k):
            s = "(%s + v%d)" % (s, i)
        out.append(("cap_live%d" % k, "def main(): i64 { %s%s }\n" % (lets, s), [[]]))
        out.append(("cap_live%d_print" % k, "def main(): i64 { %sprintln_i64(v0); %s }\n" % (lets, s), [[]]))
    return out


def check_C12(tier):
    stages.EFFECTS_LIMIT = T(tier, 6, None)
    import time, collections
    t0 = time.time()
    build_harness()
    work = fresh_dir(WORK, "C12")
    k = T(tier, 1, 12)
    plan = [dict(n=160 * k, mode="any", pressure=False, budget=(8, 34), wide=True, max_main_params=5, tag="any"),
            dict(n=60 * k, mode="any", pressure=True, twins=True, budget=(8, 24), tag="press")]
    art, index, args, meta = stages.build(work, plan, axcut_plan=None, emit="fun,core,coreuniq,corefs,axcut,axcutlin,x86,a64,rv64")
    # capacity-boundary programs go through the same pipeline
    cb = capacity_boundary_programs()
    lp = os.path.join(work, "cap.json")
    json.dump([{"name": n, "kind": "fun", "src": s} for n, s, a in cb], open(lp, "w"))
    sccv("pipeline", lp, os.path.join(work, "capart"), "axcutlin,x86,a64,rv64")
    capindex = {c["name"]: c for c in json.load(open(os.path.join(work, "capart", "index.json")))}
    traces = stages.stage_traces(art, index) + stages.stage_traces(os.path.join(work, "capart"), capindex)
    r = stages.run_stage_traces(work, traces)
    viols, stats = [], collections.Counter()
    states, trans = r["distinct"], r["states"]
    accepted_prog = {n for n, e in index.items() if any(s["stage"] == "check" and s["outcome"] == "ok" for s in e["stages"])}
    for x in r["results"]:
        stats["trace:" + x["status"]] += 1
        if x["status"] == "tool":
            raise ToolError(x["why"])
        if x["status"] == "rejected" and (x["case"] in accepted_prog or x["case"].startswith("cap_")):
            rp = save_replay("C12", "trace-" + x["case"], {"program": x["case"], "why": x["why"], "source": meta.get(x["case"], {}).get("src"),
                                                          "stages": (index.get(x["case"]) or capindex.get(x["case"]))["stages"]})
            viols.append({"signature": "C12:internal-failure:%s" % lockstep.normalize_why(x["why"]), "what": "%s: %s" % (x["case"], x["why"][:200]), "replay": rp})
    for stg in ("core", "coreuniq", "corefs", "axcut", "axcutlin"):
        names = [n for n in index if stages.stage_ok(index[n], stg)]
        bad, rr = stages.run_walker(art, work, names, stg)
        states += rr["distinct"]; trans += rr["states"]
        stats["walked:" + stg] = len(names)
        for n, ws in bad.items():
            if not ws:
                continue
            stats["ill-typed:" + stg] += 1
            tw = meta.get(n, {}).get("twin")
            cap = tw and not bad.get(tw)
            plain_capture = meta.get(n, {}).get("origin") == "any" and stg != "axcutlin"
            sig = "C12:capture:typing" if cap else "C12:typing:%s:%s" % (stg, lockstep.normalize_why(ws[0]))
            rp = save_replay("C12", "typing-%s-%s" % (stg, n), {"program": n, "stage": stg, "reasons": ws, "source": meta.get(n, {}).get("src")})
            viols.append({"signature": sig, "what": "%s: %s output is ill-typed: %s" % (n, stg, ws[0]), "replay": rp})
    log("[C12] %s" % dict(stats))
    new = triage("C12", viols)
    write_evidence("C12", tier, "model_checking",
                   {"states": states, "transitions": trans, "traces_validated_against_impl": len(traces) + sum(v for kk, v in stats.items() if kk.startswith("walked:")),
                    "samples": [{"trace": t["name"], "events": [(e["stage"], e["class"]) for e in t["events"]], "facts": t["facts"]} for t in traces[-3:]],
                    "outcomes": dict(stats),
                    "rule": "stage-event traces of generated and capacity-boundary programs validated by spec/TracePipeline.tla (a panic is in "
                            "no alphabet; capacity only beyond the documented limits); every intermediate program of every accepted program "
                            "walked on all paths by spec/CoreTyping.tla / spec/AxCutTyping.tla"},
                   time.time() - t0, len(viols))
    return 1 if new else 0


# ---------------------------------------------------------------------------------------------- C14
def adversarial_variants(src, text_by_backend):
    """append definitions / types whose names are exactly the names the compiler generated for this program"""
    import re
    names = set()
    for t in text_by_backend.values():
        for m in re.finditer(r"^([A-Za-z_][\w]*):", t, re.M):
            names.add(m.group(1))
    defs, types = [], []
    for n in sorted(names):
        if n in ("asm_main", "cleanup"):
            defs.append(n)                       # user definition called asm_main / cleanup
        elif re.match(r"^lab\d+$", n):
            defs.append(n)                       # user definition called lab<n>
            defs.append(n[:-1] if n.endswith("_") else n)
        elif n.endswith("_") and n[0].islower():
            base = n[:-1]
            defs.append(base + "_")              # user definition whose label collides with a generated '<def>_'
            defs.append(base)                    # user definition called exactly like a generated (shared / lifted) definition
        elif n[0].isupper() and re.search(r"_\d+$", n):
            types.append(n)                      # user type called like a table label
    extra = ""
    for d in sorted(set(defs))[:24]:
        if re.match(r"^[a-z][a-zA-Z0-9_]*$", d) and ("def %s(" % d) not in src:
            extra += "def %s(): i64 { 7 }\n" % d
    for t in sorted(set(types))[:6]:
        if re.match(r"^[A-Z][a-zA-Z0-9_]*$", t) and ("data %s " % t) not in src:
            extra += "data %s { Mk%s }\ndef use_%s(x: %s): i64 { x.case { Mk%s => 1 } }\n" % (t, t, t.lower(), t, t)
    return src + extra if extra else None


def adversarial_label_clash(src, text_by_backend):
    """a clause label is `<Type>_<n>_<Xtor>` and a table label `<Type'>_<m>`: rename a constructor of the first matched type to
    `Q_<m>` and the second matched type to `<Type>_<n>_Q` (renaming shifts no counter), so that both labels read
    `<Type>_<n>_Q_<m>` unless the compiler keeps them apart"""
    import re
    mono = set(re.findall(r"^data ([A-Z]\w*) \{", src, re.M))
    t = text_by_backend.get("x86") or next(iter(text_by_backend.values()), "")
    tabs = [(m.group(1), int(m.group(2))) for m in re.finditer(r"^([A-Z]\w*?)_(\d+):", t, re.M) if m.group(1) in mono]
    for (x, n) in tabs:
        cl = re.findall(r"^%s_%d_([A-Z]\w*):" % (re.escape(x), n), t, re.M)
        for (y, m_) in tabs:
            if y != x and m_ > n and cl and ("Q_%d" % m_) not in src and ("%s_%d_Q" % (x, n)) not in src:
                out = re.sub(r"\b%s\b" % re.escape(cl[0]), "Q_%d" % m_, src)
                return re.sub(r"\b%s\b" % re.escape(y), "%s_%d_Q" % (x, n), out)
    return None


def adversarial_renames(src, text_by_backend, limit=3):
    """variants in which one helper definition of the user is *renamed* to exactly the name of a definition the compiler
    generated (shared continuation, lifted statement): renaming changes no identifier numbering, so the compiler generates the
    same name again and must keep the two apart"""
    import re
    user = [u for u in re.findall(r"^def ([a-z]\w*)\(", src, re.M) if u != "main"]
    gen = set()
    for t in text_by_backend.values():
        for m in re.finditer(r"^([a-z][\w]*)_:", t, re.M):
            if m.group(1) not in user and m.group(1) not in ("main", "asm_main", "cleanup") and not re.match(r"^lab\d+$", m.group(1)):
                gen.add(m.group(1))
    fams = {}
    for g in sorted(gen):
        fams.setdefault(g.split("_")[0], []).append(g)      # one name of every family of generated names (share_.., lift_.., ..)
    picks = [v[0] for v in fams.values()] + [v[-1] for v in fams.values() if len(v) > 1]
    out = []
    for g, u in zip(picks[:limit], user):
        if re.match(r"^[a-z][a-zA-Z0-9_]*$", g):
            out.append(re.sub(r"\b%s\b" % re.escape(u), g, src))
    return out


def table_clauses(be, code, labs):
    """Number of clause labels "<table>_<xtor>" per label, from the label names only; 0 (= not known) where the names are
    ambiguous: some label with the prefix "<table>_" is itself the underscore-prefix of a further label (the table `T_1` of a
    type T next to the table `T_1_1` of a user type that is called T_1 - the false alarm found by benign change B53).
    spec/AsmWF.tla recognises tables by their shape and uses this number only where it is known."""
    labset = set(labs)
    owns = set()                                           # labels that are a proper underscore-prefix of another label
    for l in labs:
        parts = l.split("_")
        for k_ in range(1, len(parts)):
            cand = "_".join(parts[:k_])
            if cand in labset:
                owns.add(cand)
    count = {}
    for t in labs:
        cands = [l for l in labs if l.startswith(t + "_")]
        count[t] = 0 if any(l in owns for l in cands) else len(cands)
    return count


def wide_type_programs(n):
    """codata / data types with n xtors; the uses pick the last position, position 1024 / 512 (the first table offsets that
    are a whole multiple of the AArch64 / RISC-V immediate range) and a small one"""
    pos = sorted({p_ for p_ in (3, 512, 513, 1024, 1025, n - 1) if p_ < n})
    ds = ", ".join("d%d: i64" % i for i in range(n))
    cl = ", ".join("d%d => %d" % (i, i) for i in range(n))
    uses = " ".join("println_i64(w.d%d);" % p_ for p_ in pos)
    co = ("codata W { %s }\ndef mk(): W { new { %s } }\ndef use(w: W): i64 { %s 0 }\ndef main(): i64 { use(mk()) }\n" % (ds, cl, uses))
    cs = ", ".join("K%d" % i for i in range(n))
    cl2 = ", ".join("K%d => %d" % (i, i) for i in range(n))
    picks = " ".join("println_i64(pick(K%d));" % p_ for p_ in pos)
    da = "data E { %s }\ndef pick(e: E): i64 { e.case { %s } }\ndef main(): i64 { %s 0 }\n" % (cs, cl2, picks)
    return [("wide%d_codata" % n, co), ("wide%d_data" % n, da)]


def long_name_programs():
    """type names (declared, or instances of nested parameterised types) of 20..130 characters, each used by several case /
    new expressions, and pairs of types that agree in their first characters: whatever the label scheme does with long
    names, two tables must not end up with one label"""
    out = []
    for ln in (20, 58, 62, 66, 130):
        b = "T" + "a" * (ln - 2)
        src = ("data %sP { Ap, Bp(v: i64) }\ndata %sQ { Aq, Bq(v: i64) }\ncodata %sR { ap(x: i64): i64 }\n" % (b, b, b) +
               "def f1(x: %sP): i64 { x.case { Ap => 1, Bp(v) => v } }\ndef f2(x: %sP): i64 { x.case { Ap => 2, Bp(v) => v + 1 } }\n" % (b, b) +
               "def g1(x: %sQ): i64 { x.case { Aq => 3, Bq(v) => v + 2 } }\ndef g2(x: %sQ): i64 { x.case { Aq => 4, Bq(v) => v + 3 } }\n" % (b, b) +
               "def h1(): %sR { new { ap(x) => x + 1 } }\ndef h2(): %sR { new { ap(x) => x + 2 } }\n" % (b, b) +
               "def main(): i64 { println_i64(f1(Ap)); println_i64(f2(Bp(5))); println_i64(g1(Aq)); println_i64(g2(Bq(6))); "
               "println_i64(h1().ap(1)); println_i64(h2().ap(1)); 0 }\n")
        out.append(("longname%d" % ln, src))
    for depth in (1, 2, 3, 4):
        t = "i64"
        for _ in range(depth):
            t = "Pair[%s, %s]" % (t, t)
        v = "1"
        for _ in range(depth):
            v = "MkPair(%s, %s)" % (v, v)
        e = "Either[%s, %s]" % (t, t)
        src = ("data Pair[A, B] { MkPair(fst: A, snd: B) }\ndata Either[A, B] { Left(l: A), Right(r: B) }\n"
               "def isLeft(e: %s): i64 { e.case[%s, %s] { Left(l) => 1, Right(r) => 0 } }\n"
               "def isRight(e: %s): i64 { e.case[%s, %s] { Left(l) => 0, Right(r) => 1 } }\n"
               "def main(): i64 { println_i64(isLeft(Left(%s))); println_i64(isRight(Left(%s))); println_i64(isLeft(Right(%s))); 0 }\n"
               % (e, t, t, e, t, t, v, v, v))
        out.append(("longinst%d" % depth, src))
    return out


def check_C14(tier):
    stages.EFFECTS_LIMIT = T(tier, 6, None)
    import native, refine, time, collections
    t0 = time.time()
    build_harness()
    work = fresh_dir(WORK, "C14")
    k = T(tier, 1, 10)
    plan = [dict(n=60 * k, mode="any", pressure=True, budget=(8, 26), wide=True, max_main_params=5, tag="press"),
            dict(n=40 * k, mode="any", pressure=False, budget=(8, 26), wide=True, tag="plain")]
    art, index, args, meta = stages.build(work, plan, emit="x86,a64,rv64")
    # adversarial naming: recompile with user names equal to the names the compiler generated
    adv = []
    for n, e in list(index.items()):
        src = meta.get(n, {}).get("src")
        if not src or len(adv) >= T(tier, 80, 800):
            continue
        texts = {be: open(os.path.join(art, "%s.%s.asm" % (n, be))).read() for be in ("x86", "a64") if os.path.exists(os.path.join(art, "%s.%s.asm" % (n, be)))}
        v = adversarial_variants(src, texts)
        if v:
            adv.append({"name": n + "_adv", "kind": "fun", "src": v})
            meta[n + "_adv"] = {"src": v, "origin": "adversarial"}
        for j, v2 in enumerate(adversarial_renames(src, texts)):
            adv.append({"name": "%s_ren%d" % (n, j), "kind": "fun", "src": v2})
            meta["%s_ren%d" % (n, j)] = {"src": v2, "origin": "adversarial-rename"}
    # types with many xtors (the property quantifies over them): destructors / constructors at positions whose tag or table
    # offset no longer fits a small immediate, invoked on a variable (constant offset added to the table address) and
    # through a known constructor (tag materialised as a literal)
    for wn in T(tier, [40, 1030], [40, 300, 520, 1030, 2100]):
        for nm, src in wide_type_programs(wn):
            adv.append({"name": nm, "kind": "fun", "src": src})
            meta[nm] = {"src": src, "origin": "wide-type"}
    for nm, src in long_name_programs():
        adv.append({"name": nm, "kind": "fun", "src": src})
        meta[nm] = {"src": src, "origin": "long-name"}
    # type-label / clause-label clash: label numbers depend on everything the process compiled before, so the base program is
    # compiled alone in a fresh process, the clash is constructed from the labels seen there, and the variant is compiled alone too
    tclash_arts = []
    ntc = 0
    for n, e in list(index.items()):
        src = meta.get(n, {}).get("src")
        if not src or ntc >= T(tier, 12, 120) or len(re.findall(r"^data [A-Z]\w* \{", src, re.M)) < 2 or not any(s_["stage"] == "x86" and s_["outcome"] == "ok" for s_ in e["stages"]):
            continue
        d1 = os.path.join(work, "tclash", n)
        os.makedirs(d1, exist_ok=True)
        json.dump([{"name": "b", "kind": "fun", "src": src}], open(os.path.join(d1, "base.json"), "w"))
        sccv("pipeline", os.path.join(d1, "base.json"), os.path.join(d1, "base"), "x86")
        bp = os.path.join(d1, "base", "b.x86.asm")
        v3 = adversarial_label_clash(src, {"x86": open(bp).read()}) if os.path.exists(bp) else None
        if not v3:
            continue
        ntc += 1
        json.dump([{"name": n + "_tclash", "kind": "fun", "src": v3}], open(os.path.join(d1, "var.json"), "w"))
        sccv("pipeline", os.path.join(d1, "var.json"), os.path.join(d1, "var"), "x86,a64,rv64")
        tclash_arts.append(os.path.join(d1, "var"))
        meta[n + "_tclash"] = {"src": v3, "origin": "adversarial-label-clash"}
    r = rng_for("C14")
    directed = GL.fam_literals(r, 12 * k) + GL.fam_ops(r, 40 * k) + GL.fam_ifc(r, 40 * k)
    lst = adv + [{"name": nm, "kind": "axcut", "prog": p, "linear": True} for nm, p, a in directed]
    lp = os.path.join(work, "adv.json")
    json.dump(lst, open(lp, "w"))
    art2 = os.path.join(work, "art2")
    sccv("pipeline", lp, art2, "x86,a64,rv64")
    index2 = {c["name"]: c for c in json.load(open(os.path.join(art2, "index.json")))}
    sccv("config", art)
    cfgs = {be: json.load(open(os.path.join(art, be + ".config.json"))) for be in ("x86", "a64", "rv64")}
    files, texts = [], {}
    stats = collections.Counter()
    tcl = [(a_, {c["name"]: c for c in json.load(open(os.path.join(a_, "index.json")))}) for a_ in tclash_arts]
    for a_, idx in [(art, index), (art2, index2)] + tcl:
        for n in idx:
            for be in ("x86", "a64", "rv64"):
                p = os.path.join(a_, "%s.%s.asm" % (n, be))
                if not os.path.exists(p):
                    continue
                c = refine.load_code(a_, n, be)
                labs = list(c["labels"])
                clauses = table_clauses(be, c["code"], labs)
                files.append({"name": "%s:%s" % (n, be), "backend": be, "code": c["code"], "labels": c["labels"], "dups": c["dups"],
                              "clauses": clauses, "jump_length": cfgs[be]["jump_length"]})
                texts["%s:%s" % (n, be)] = c["text"]
    wd = os.path.join(work, "tlc")
    os.makedirs(wd, exist_ok=True)
    rr = tlc_batch_chunked("AsmWF", "AsmWF.cfg", wd, files, envkey="SCCV_PROGS", timeout=T(tier, 900, 7000), xmx="12g")
    verdict = {x["case"]: x for x in rr["results"]}
    viols = []
    for x in rr["results"]:
        stats["%s:%s" % (x["backend"], x["status"])] += 1
        if x["status"] == "fail":
            rp = save_replay("C14", x["case"], {"file": x["case"], "why": x["why"], "tag": x["tag"], "asm": texts[x["case"]],
                                                "source": meta.get(x["case"].split(":")[0], {}).get("src")})
            sig = "C14:%s:%s:%s" % (x["backend"], x["tag"], lockstep.normalize_why(x["why"]))
            if x["case"].split(":")[0].endswith("_tclash") and "defined more than once" in x["why"]:
                sig = "C14:%s:tclash:type-label-and-clause-label-coincide" % x["backend"]
            viols.append({"signature": sig, "replay": rp, "what": "%s: %s" % (x["case"], x["why"])})
    # ground truth for x86-64: GNU as must accept every file, and must agree with the specification's verdict
    nat = native.Native(work)
    x86files = [f for f in files if f["backend"] == "x86"]
    import concurrent.futures
    def asm1(f):
        obj, diag = nat.assemble(f["name"].replace(":", "_"), texts[f["name"]])
        return f["name"], obj is not None, diag
    with concurrent.futures.ThreadPoolExecutor(max_workers=12) as ex:
        for name, ok, diag in ex.map(asm1, x86files):
            v = verdict[name]
            if ok and v["status"] == "fail" and v["tag"] in ("encode", "labels", "targets"):
                raise ToolError("spec/AsmWF.tla rejects %s (%s) but GNU as accepts it: the specification is too strict" % (name, v["why"]))
            if not ok:
                stats["x86:as-rejected"] += 1
                if v["status"] != "fail":
                    d = " | ".join(sorted({re_sub_line(l) for l in diag.splitlines() if "rror" in l}))[:160]
                    rp = save_replay("C14", "as-" + name, {"file": name, "diag": diag, "asm": texts[name]})
                    viols.append({"signature": "C14:x86:as:%s" % lockstep.normalize_why(d), "replay": rp, "what": "%s: GNU as rejects the file: %s" % (name, d)})
            else:
                stats["x86:as-accepted"] += 1
    # ground truth for AArch64: the assembler of LLVM (clang --target=aarch64-linux-gnu), same two-way agreement
    a64_truth = nat.a64_available()
    if a64_truth:
        a64files = [f for f in files if f["backend"] == "a64"]
        def asm2(f):
            ok, diag = nat.assemble_a64(f["name"].replace(":", "_"), texts[f["name"]])
            return f["name"], ok, diag
        with concurrent.futures.ThreadPoolExecutor(max_workers=12) as ex:
            for name, ok, diag in ex.map(asm2, a64files):
                v = verdict[name]
                if ok and v["status"] == "fail" and v["tag"] in ("encode", "labels", "targets"):
                    raise ToolError("spec/AsmWF.tla rejects %s (%s) but the AArch64 assembler accepts it: the specification is too strict" % (name, v["why"]))
                if not ok:
                    stats["a64:as-rejected"] += 1
                    if v["status"] != "fail":
                        d = " | ".join(sorted({re.sub(r"^.*?error: ", "", l) for l in diag.splitlines() if "error:" in l}))[:160]
                        rp = save_replay("C14", "as-" + name, {"file": name, "diag": diag[:4000], "asm": texts[name]})
                        viols.append({"signature": "C14:a64:as:%s" % lockstep.normalize_why(d), "replay": rp, "what": "%s: the AArch64 assembler rejects the file: %s" % (name, d)})
                else:
                    stats["a64:as-accepted"] += 1
    log("[C14] %s" % dict(stats))
    new = triage("C14", viols)
    write_evidence("C14", tier, "model_checking",
                   {"states": rr["distinct"], "transitions": rr["states"], "traces_validated_against_impl": len(files),
                    "samples": [{"file": f["name"], "instructions": len(f["code"]), "labels": len(f["labels"])} for f in files[:3]],
                    "outcomes": dict(stats), "adversarial_programs": len(adv),
                    "rule": "every emitted file of generated programs (adversarial identifiers lab1/cleanup/asm_main/share_f_0, names equal "
                            "to the labels the compiler generated for the same program, many-xtor types, literals of every magnitude in "
                            "register and spill placements) judged statically by spec/AsmWF.tla on all three backends; x86-64 files "
                            "additionally assembled by GNU as and AArch64 files by LLVM's assembler, whose verdicts must agree with "
                            "the specification in both directions"},
                   time.time() - t0, len(viols), assumptions=(["AArch64 files assembled by LLVM's integrated assembler (clang --target=aarch64-linux-gnu), which must agree with spec/AsmWF.tla in both directions"] if a64_truth else ["no AArch64 assembler found: operand ranges of spec/A64.tla are from the architecture manual"])
                               + ["the RISC-V text is the backend's own notation (blank-separated operands), which no assembler reads: judged by the specification only"])
    return 1 if new else 0


# ---------------------------------------------------------------------------------------------- C19
def size_families(k):
    """scalable families of depth k: every kind of branch point x every kind of position the rest of the program can be in"""
    decl = ("data T { A, B(v: i64), C(l: T, r: T) }\ncodata F { ap(x: i64): i64 }\n"
            "def f(x: i64, y: i64): i64 { x + y }\ndef mk(): F { new { ap(x) => x } }\n"
            "def h(x: i64): T { if x == 0 { A } else { B(x) } }\ndef hk(x: i64, k :cns T): T { if x == 0 { goto k (A) } else { B(x) } }\n")

    def branch(kind, i, var):
        # a branch point of type i64 depending on variable `var`
        if kind == "if":
            return "if %s == %d { %s + 1 } else { %s * 2 }" % (var, i, var, var)
        if kind == "ifz":
            return "if %s <= 0 { 1 } else { 2 }" % var
        if kind == "case":
            return "t.case { A => %s, B(v) => v + %s, C(l, r) => %s * 2 }" % (var, var, var)
        if kind == "pair":   # critical pair: a data value chosen by a conditional, then matched
            return "(if %s == %d { A } else { B(%d) }).case { A => %s, B(v) => v, C(l, r) => 0 }" % (var, i, i, var)
        if kind == "label":
            return "label a%d { if %s == %d { goto a%d (%s + 1) } else { %s } }" % (i, var, i, i, var, var)
        if kind == "letcall":   # a data value bound by a let to a call (mu / mu~ critical pair over a multi-constructor type), then matched
            return "(let d%d: T = h(%s); d%d.case { A => %s, B(v) => v, C(l, r) => 0 })" % (i, var, i, var)
        if kind == "letlabel":
            return "(let d%d: T = label b%d { hk(%s, b%d) }; d%d.case { A => %s, B(v) => v, C(l, r) => 0 })" % (i, i, var, i, i, var)
        raise ValueError(kind)

    def nested(kind, i, var, rest):
        # the same branch points with the rest of the program *inside* one of the branches
        if kind == "if":
            return "if %s == %d { %s } else { %s * 2 }" % (var, i, rest, var)
        if kind == "ifz":
            return "if %s <= 0 { 1 } else { %s }" % (var, rest)
        if kind == "case":
            return "t.case { A => %s, B(v) => v + %s, C(l, r) => %s }" % (var, var, rest)
        if kind == "pair":
            return "(if %s == %d { A } else { B(%d) }).case { A => %s, B(v) => %s, C(l, r) => 0 }" % (var, i, i, var, rest)
        if kind == "label":
            return "label a%d { if %s == %d { goto a%d (%s + 1) } else { %s } }" % (i, var, i, i, var, rest)
        if kind == "letcall":
            return "let d%d: T = h(%s); d%d.case { A => %s, B(v) => %s, C(l, r) => 0 }" % (i, var, i, var, rest)
        if kind == "letlabel":
            return "let d%d: T = label b%d { hk(%s, b%d) }; d%d.case { A => %s, B(v) => %s, C(l, r) => 0 }" % (i, i, var, i, i, var, rest)
        raise ValueError(kind)

    def branch_fn(kind, i, var):
        # a branch point whose result is a codata value (used as the receiver of a destructor call)
        alt = "{ mk() }"
        if kind == "if":
            return "(if %s == %d %s else %s)" % (var, i, alt, alt)
        if kind == "ifz":
            return "(if %s <= 0 %s else %s)" % (var, alt, alt)
        if kind == "case":
            return "(t.case { A => mk(), B(v) => mk(), C(l, r) => mk() })"
        if kind == "pair":
            return "((if %s == %d { A } else { B(%d) }).case { A => mk(), B(v) => mk(), C(l, r) => mk() })" % (var, i, i)
        if kind == "label":
            return "(label a%d { if %s == %d { goto a%d (mk()) } else { mk() } })" % (i, var, i, i)
        if kind == "letcall":
            return "(let d%d: T = h(%s); d%d.case { A => mk(), B(v) => mk(), C(l, r) => mk() })" % (i, var, i)
        if kind == "letlabel":
            return "(let d%d: T = label b%d { hk(%s, b%d) }; d%d.case { A => mk(), B(v) => mk(), C(l, r) => mk() })" % (i, i, var, i, i)
        raise ValueError(kind)

    def nest(kind, pos, i):
        # the program of depth k-i: branch point i, then the rest in position `pos`
        if i == k:
            return "x%d" % k if pos == "let" else "x0"
        rest = nest(kind, pos, i + 1)
        if pos == "nested":
            return nested(kind, i, "x0", rest)
        if pos == "recv":      # the branch point is the receiver of a destructor call that is not in tail position
            return "let y%d: i64 = %s.ap(x0); %s" % (i, branch_fn(kind, i, "x0"), rest)
        br = branch(kind, i, "x%d" % i if pos == "let" else "x0")
        if pos == "let":
            return "let x%d: i64 = %s; %s" % (i + 1, br, rest)
        if pos == "call":
            return "let y%d: i64 = %s; f(y%d, %s)" % (i, br, i, rest)
        if pos == "callarg":
            return "f(%s, %s)" % ("(" + br + ")", "(" + rest + ")")
        if pos == "operand":
            return "(%s) + (%s)" % (br, rest)
        if pos == "ctor":
            return "C(B(%s), B(%s)).case { A => 0, B(v) => v, C(l, r) => 1 }" % (br, rest)
        if pos == "dtor":
            return "mk().ap(%s) + (%s)" % ("(" + br + ")", rest) if False else "mk().ap((%s) + (%s))" % (br, rest)
        if pos == "print":
            return "println_i64(%s); %s" % (br, rest)
        if pos == "scrut":
            return "(if (%s) == 0 { A } else { B(%s) }).case { A => 0, B(v) => v, C(l, r) => 1 }" % (br, "(" + rest + ")")
        raise ValueError(pos)
    fams = {}
    for kind in ("if", "ifz", "case", "pair", "label", "letcall", "letlabel"):
        for pos in ("let", "call", "callarg", "operand", "ctor", "dtor", "print", "scrut", "nested", "recv"):
            body = nest(kind, pos, 0)
            fams["%s_%s" % (kind, pos)] = decl + "def g(t: T, x0: i64): i64 { %s }\ndef main(x0: i64): i64 { g(C(A, B(x0)), x0) }\n" % body
    return fams


def check_C19(tier):
    import time, collections, refine
    t0 = time.time()
    build_harness()
    work = fresh_dir(WORK, "C19")
    ks = [4, 8, 12, 16]
    lst = []
    art = os.path.join(work, "art")
    early = []
    for stage_ks in ([4, 8], [12], [16]):
        part = []
        for k in stage_ks:
            for nm, src in size_families(k).items():
                if nm in {e[0] for e in early}:
                    continue
                part.append({"name": "%s_%d" % (nm, k), "kind": "fun", "src": src})
        lp = os.path.join(work, "list%d.json" % stage_ks[0])
        json.dump(part, open(lp, "w"))
        sccv("pipeline", lp, art, "core,axcut,x86", timeout=1200)
        lst += part
        # a family that already grew by more than the allowed factor is not compiled at greater depth
        for nm in size_families(4):
            def sz(k_, st_):
                p_ = os.path.join(art, "%s_%d.%s.json" % (nm, k_, st_))
                return len(json.load(open(p_))["nodes"]) if os.path.exists(p_) else None
            for st_, label in (("core", "Core"), ("axcut", "AxCut")):
                if nm not in {e[0] for e in early}:
                    s4, s8, s12 = sz(4, st_), sz(8, st_), sz(12, st_)
                    if s4 and s8 and s8 > 12 * s4:
                        early.append((nm, "%s size grows from %d (depth 4) to %d (depth 8)" % (label, s4, s8)))
                    elif s4 and s12 and s12 > 40 * s4:
                        early.append((nm, "%s size grows from %d (depth 4) to %d (depth 12)" % (label, s4, s12)))
    lp = os.path.join(work, "list.json")
    json.dump([c for c in lst if c["name"].rsplit("_", 1)[0] not in {e[0] for e in early}], open(lp, "w"))
    sccv("pipeline", lp, art, "fun,core,corefs,axcut,axcutlin,x86,a64,rv64", timeout=1200)
    index = {c["name"]: c for c in json.load(open(os.path.join(art, "index.json")))}
    srcsize = {c["name"]: len(c["src"].split()) for c in lst}
    fams = []
    for nm in size_families(4):
        if nm in {e[0] for e in early}:
            continue
        for stage, ext in (("core", "core.json"), ("corefs", "corefs.json"), ("axcut", "axcut.json"), ("axcutlin", "axcutlin.json"),
                           ("x86", "x86.asm"), ("a64", "a64.asm"), ("rv64", "rv64.asm")):
            sizes = []
            for k in ks:
                p = os.path.join(art, "%s_%d.%s" % (nm, k, ext))
                if not os.path.exists(p):
                    sizes = None
                    break
                if ext.endswith(".json"):
                    sizes.append(len(json.load(open(p))["nodes"]))
                else:
                    sizes.append(len([i for i in refine.load_code(art, "%s_%d" % (nm, k), stage)["code"] if i["op"] not in ("mark",)]))
            if sizes is None:
                bad = [s for s in index["%s_%d" % (nm, 16)]["stages"] if s["outcome"] != "ok"]
                if stage == "rv64" or any(m in (bad[0]["msg"] if bad else "") for m in lockstep.CAPACITY_MSGS):
                    continue   # documented capacity (print-free RISC-V / live variables)
                raise ToolError("family %s has no %s artifact: %s" % (nm, stage, bad[:1]))
            fams.append({"name": nm, "stage": stage, "ks": ks, "src": [srcsize["%s_%d" % (nm, k)] for k in ks], "size": sizes})
    wd = os.path.join(work, "tlc")
    os.makedirs(wd, exist_ok=True)
    fp = os.path.join(wd, "fams.json")
    json.dump(fams, open(fp, "w"))
    r = tlc_batch("Sizes", "Sizes.cfg", wd, {"SCCV_CASES": fp}, len(fams), timeout=600, workers=4)
    viols = []
    for nm, why in early:
        rp = save_replay("C19", nm + "-early", {"family": nm, "why": why, "source_depth4": size_families(4)[nm]})
        viols.append({"signature": "C19:%s:early" % nm, "what": "%s: %s (exponential: deeper members not compiled)" % (nm, why), "replay": rp})
    for x in r["results"]:
        if x["status"] == "fail":
            rp = save_replay("C19", x["case"], x)
            viols.append({"signature": "C19:%s" % x["case"], "what": "%s: %s (sizes %s for source sizes %s)" % (x["case"], x["why"], x["size"], x["src"]), "replay": rp})
    log("[C19] %d family/stage pairs, %d failing" % (len(fams), len(viols)))
    new = triage("C19", viols)
    write_evidence("C19", tier, "exploration",
                   {"evaluations": len(fams) * len(ks), "distinct_nontrivial": len(fams),
                    "rule": "70 scalable families (7 kinds of branch point: if, zero-test, 3-way match, critical pair, label, match on a "
                            "let-bound call, match on a let-bound label block; x 10 positions of the rest of the program: let body, after a "
                            "call, call argument, operand, constructor argument, destructor argument, after a print, scrutinee, "
                            "nested inside one branch, and after a destructor call whose receiver is the branch point) at depth 4, 8, 12, 16 "
                            "through the real pipeline; size = node count of each dumped stage / instruction count of each backend's text; "
                            "spec/Sizes.tla evaluates Growth and Quadratic; a family/stage pair is non-trivial when its four sizes differ",
                    "samples": [{"family": f["name"], "stage": f["stage"], "source_tokens": f["src"], "sizes": f["size"]} for f in fams[:6]],
                    "states": r["distinct"], "transitions": r["states"]},
                   time.time() - t0, len(viols))
    return 1 if new else 0


# ---------------------------------------------------------------------------------------------- C18
FUN_TOKEN = r"""//[^\n]*|:\s*cns|==\s*0|0\s*==|!=\s*0|0\s*!=|<=\s*0|0\s*<=|>=\s*0|0\s*>=|<\s*0|0\s*<|>\s*0|0\s*>|=>|==|!=|<=|>=|[(){}\[\];,:.=<>+*\-/%]|[A-Za-z][A-Za-z0-9_]*|[0-9]+"""
MUT_BASES = {
    "list": "data List { Nil, Cons(x: i64, xs: List) }\ndef sum(l: List, acc: i64): i64 { l.case { Nil => acc, Cons(x, xs) => sum(xs, acc + x) } }\ndef main(n: i64): i64 { println_i64(sum(Cons(n, Cons(2, Nil)), 0)); 0 }",
    "codata": "codata Fun[A, B] { apply(x: A): B }\ndef app(f: Fun[i64, i64], k :cns i64): i64 { goto k (f.apply[i64, i64](3)) }\ndef main(): i64 { label a { app(new { apply(y) => if y == 0 { 1 } else { y - 1 } }, a) } }",
    "let": "def main(a: i64, b: i64): i64 { let x: i64 = (a * 2) % 7; print_i64(x); if x <= b { exit 3 } else { x / -1 } }",
}
MUT_ALPHABET = ["def", "data", "codata", "let", "if", "else", "case", "new", "label", "goto", "exit", "print_i64", "println_i64", "i64",
                "(", ")", "{", "}", "[", "]", ";", ",", ":", ":cns", ".", "=", "=>", "==", "== 0", "<", "+", "-", "/", "main", "x", "Cons", "Nil",
                "0", "1", "9223372036854775807", "9223372036854775808", "99999999999999999999999"]


def check_C18(tier):
    import re, time, collections
    t0 = time.time()
    build_harness()
    work = fresh_dir(WORK, "C18")
    # ---- token-level mutants, enumerated by TLC from spec/Mutate.tla
    bases = [{"name": n, "toks": [t for t in re.findall(FUN_TOKEN, s) if not t.startswith("//")]} for n, s in MUT_BASES.items()]
    wd = os.path.join(work, "mut")
    os.makedirs(wd, exist_ok=True)
    bp, cp = os.path.join(wd, "bases.json"), os.path.join(wd, "cfg.json")
    json.dump(bases, open(bp, "w"))
    json.dump({"alphabet": MUT_ALPHABET, "maxdepth": T(tier, 1, 2), "window": 1}, open(cp, "w"))
    r = run_tlc("Mutate", "Mutate.cfg", wd, {"SCCV_CASES": bp, "SCCV_CFG": cp}, workers=8, timeout=T(tier, 900, 7000))
    if r["states"] is None or r["rc"] != 0:
        raise ToolError("Mutate did not complete: %s" % r["errors"][:2])
    mutants = set()
    for line in open(r["out"]):
        if line.startswith('"MUTANT '):
            m = json.loads(json.loads(line.strip())[len("MUTANT "):])
            mutants.add(" ".join(m["toks"]))
    mutants = sorted(mutants)
    if len(mutants) < 1000:
        raise ToolError("only %d mutants enumerated" % len(mutants))
    rng = rng_for("C18")
    if tier == "thorough" and len(mutants) > 400000:
        mutants = rng.sample(mutants, 400000)
    lst = [{"name": "tok%d" % i, "kind": "fun", "src": s, "only_valid_main": True} for i, s in enumerate(mutants)]
    # ---- byte-level mutations (valid UTF-8 strings), extreme shapes
    srcs = list(MUT_BASES.values()) + [open(f).read() for f in sorted(__import__("glob").glob(os.path.join(REPO, "examples", "*", "*.sc")))]
    pool = "(){}[];,:.=<>+-*/% \n\t\"'\\#@$^&|~`?!_0123456789abcxyzXYZ\u00e9\u4e2d\u0000\ufeff"
    nb = T(tier, 1500, 40000)
    for i in range(nb):
        s = rng.choice(srcs)
        for _ in range(rng.choice([1, 1, 2, 3, 8])):
            p = rng.randrange(len(s) + 1)
            k = rng.random()
            if k < 0.35:
                s = s[:p] + rng.choice(pool) + s[p:]
            elif k < 0.7 and p < len(s):
                s = s[:p] + s[p + 1:]
            elif k < 0.9 and p < len(s):
                s = s[:p] + rng.choice(pool) + s[p + 1:]
            else:
                q = rng.randrange(len(s) + 1)
                s = s[:min(p, q)] + s[max(p, q):]
        lst.append({"name": "byte%d" % i, "kind": "fun", "src": s, "only_valid_main": True})
    extreme = {
        "empty": "", "only_comment": "// nothing\n", "no_main": "def f(): i64 { 1 }\n",
        "main6": "def main(a: i64, b: i64, c: i64, d: i64, e: i64, f: i64): i64 { a }\n",
        "main_cns": "def main(k :cns i64): i64 { goto k (1) }\n", "main_data": "data D { K }\ndef main(): D { K }\n",
        "big_lit": "def main(): i64 { 9223372036854775808 }\n", "huge_lit": "def main(): i64 { 123456789012345678901234567890 }\n",
        "neg_min": "def main(): i64 { -9223372036854775808 }\n", "max_lit": "def main(): i64 { 9223372036854775807 }\n",
        "deep_paren": "def main(): i64 { " + "(" * 300 + "1" + ")" * 300 + " }\n",
        "deep_let": "def main(): i64 { " + "".join("let x%d: i64 = %d; " % (i, i) for i in range(300)) + "x0 }\n",
        "deep_if": "def main(a: i64): i64 { " + "if a == 1 { " * 120 + "0" + " } else { 1 }" * 120 + " }\n",
        "dup_def": "def main(): i64 { 1 }\ndef main(): i64 { 2 }\n", "dup_data": "data D { K }\ndata D { K }\ndef main(): i64 { 1 }\n",
        "self_type": "data D { K(d: D) }\ndef main(): i64 { 1 }\n", "unknown_type": "def main(x: Foo): i64 { 1 }\n",
        "poly_arity": "data L[A] { N }\ndef f(x: L[i64, i64]): i64 { 1 }\ndef main(): i64 { 1 }\n",
        "poly_missing": "data L[A] { N, C(x: A) }\ndef f(x: L): i64 { 1 }\ndef main(): i64 { 1 }\n",
        "empty_case": "data D { K }\ndef main(): i64 { K.case { } }\n", "empty_new": "codata C { }\ndef main(): i64 { let c: C = new { }; 1 }\n",
        "empty_data": "data E { }\ndef f(e: E): i64 { e.case { } }\ndef main(): i64 { 1 }\n",
        "recursive_main": "def main(): i64 { main() }\n", "label_shadow": "def main(x: i64): i64 { label x { goto x (x) } }\n",
    }
    for n, s in extreme.items():
        lst.append({"name": "x_" + n, "kind": "fun", "src": s, "only_valid_main": True})
    # ---- structure-aware mutants: single ill-typed edits of generated well-typed programs (the edit classes of C15: wrong
    # arities, binder counts, clauses, type arguments, chirality, shadowing, duplicates) - inputs on which the checker must
    # produce a diagnostic, not a crash
    import gen_fun
    nsem = 0
    for name, clean, muts in gen_fun.generate_marked(seed() * 1000 + 18, T(tier, 60, 1200), mode="any", budget=(6, 18)):
        for k, (cls, src) in enumerate(muts):
            lst.append({"name": "sem_%s_m%d" % (name, k), "kind": "fun", "src": src, "only_valid_main": True})
            nsem += 1
    lp = os.path.join(work, "list.json")
    json.dump(lst, open(lp, "w"))
    art = os.path.join(work, "art")
    sccv("pipeline", lp, art, "x86,a64,rv64", timeout=T(tier, 1800, 7000))
    index = {c["name"]: c for c in json.load(open(os.path.join(art, "index.json")))}
    shutil.rmtree(art, ignore_errors=True)    # thousands of assembly files: only the stage events are needed
    srcof = {c["name"]: c["src"] for c in lst}
    traces = []
    for n, e in index.items():
        evs = [{"stage": s["stage"], "class": stages.classify_event(s), "msg": s["msg"][:160]} for s in e["stages"]]
        # capacity facts are not needed here: a capacity outcome is accepted for C18 (it is the one documented exception)
        traces.append({"name": n, "kind": "stages", "events": evs, "facts": {"nargs": 9, "maxctx": 1000, "hasprint": True}})
    # ---- files on disk, through Driver::checked (invalid UTF-8 included)
    fdir = os.path.join(work, "files")
    os.makedirs(fdir, exist_ok=True)
    blobs = {"latin1.sc": "def main(): i64 { 1 } // caf\xe9\n".encode("latin-1"), "nul.sc": b"def main(): i64 { 1 }\x00\n",
             "bom.sc": b"\xef\xbb\xbfdef main(): i64 { 1 }\n", "truncated_utf8.sc": b"def main(): i64 { 1 } // \xe4\xb8", "binary.sc": bytes(range(256)),
             "ok.sc": b"def main(): i64 { 1 }\n"}
    for n, b in blobs.items():
        open(os.path.join(fdir, n), "wb").write(b)
    fl, fo = os.path.join(work, "files.json"), os.path.join(work, "files-out.json")
    json.dump([os.path.join(fdir, n) for n in blobs], open(fl, "w"))
    sccv("check-files", fl, fo)
    for x in json.load(open(fo)):
        cls = "ok" if x["outcome"] == "ok" else ("parse_error" if x["outcome"] == "error" else "panic")
        nm = "file_" + os.path.basename(x["path"])
        traces.append({"name": nm, "kind": "stages", "events": [{"stage": "parse", "class": cls, "msg": x["msg"][:160]}], "facts": {"nargs": 0, "maxctx": 0, "hasprint": False}})
        srcof[nm] = repr(blobs[os.path.basename(x["path"])])
    # ---- the real command-line tool: diagnostics are rendered (miette) only there.  Every rejected input of the batch above
    # (a sample of the token mutants) is given to `scc check` as a file: exit status 0 or 1, never a panic / signal
    import subprocess, concurrent.futures
    b = subprocess.run(["cargo", "build", "--offline"], cwd=REPO, stdout=subprocess.PIPE, stderr=subprocess.STDOUT, text=True)
    scc = os.path.join(REPO, "target", "debug", "scc")
    if b.returncode != 0 or not os.path.exists(scc):
        raise ToolError("cannot build the scc binary: " + b.stdout[-800:])
    cdir = os.path.join(work, "cli")
    os.makedirs(cdir, exist_ok=True)
    rejected = [n for n, e in index.items() if not any(s_["stage"] == "check" and s_["outcome"] == "ok" for s_ in e["stages"])]
    toks = [n for n in rejected if n.startswith("tok")]
    cli_names = [n for n in rejected if not n.startswith("tok")] + rng.sample(toks, min(len(toks), T(tier, 400, 5000)))

    def cli1(n):
        fp_ = os.path.join(cdir, n + ".sc")
        open(fp_, "w").write(srcof[n])
        try:
            pr = subprocess.run([scc, "check", fp_], stdout=subprocess.PIPE, stderr=subprocess.PIPE, timeout=60, cwd=cdir)
        except subprocess.TimeoutExpired:
            return n, "panic", "scc check did not terminate within 60 s"
        finally:
            os.remove(fp_)
        err = pr.stderr.decode("utf-8", "replace")
        # any exit status is a verdict (0 accepted, non-zero rejected with a diagnostic); a crash is a Rust panic (status 101,
        # "panicked at"), an abort or another signal
        if 0 <= pr.returncode <= 100 and "panicked at" not in err:
            return n, ("ok" if pr.returncode == 0 else "parse_error"), ""
        m_ = re.search(r"panicked at [^\n]*\n?([^\n]*)", err)
        return n, "panic", ("scc check: exit status %d; %s" % (pr.returncode, (m_.group(0) if m_ else err[-200:]).replace("\n", " ")))[:200]
    with concurrent.futures.ThreadPoolExecutor(max_workers=12) as ex:
        for n, cls, msg in ex.map(cli1, cli_names):
            nm = "cli_" + n
            traces.append({"name": nm, "kind": "stages", "events": [{"stage": "parse", "class": cls, "msg": msg}], "facts": {"nargs": 0, "maxctx": 0, "hasprint": False}})
            srcof[nm] = srcof[n]
    rr = stages.run_stage_traces(work, traces)
    viols, stats = [], collections.Counter()
    for x in rr["results"]:
        stats[x["status"]] += 1
        if x["status"] == "tool":
            raise ToolError(x["why"])
        if x["status"] == "rejected":
            m = re.search(r"not in its alphabet: (.*)$", x["why"])
            msg = lockstep.normalize_why((m.group(1) if m else x["why"])[:70])
            stage = re.search(r"of stage (\w+)", x["why"])
            rp = save_replay("C18", x["case"], {"input": srcof.get(x["case"]), "why": x["why"]})
            viols.append({"signature": "C18:%s:%s" % (stage.group(1) if stage else "order", msg), "replay": rp, "what": "%s: %s" % (x["case"], x["why"][:200])})
    accepted = sum(1 for e in index.values() if any(s["stage"] == "check" and s["outcome"] == "ok" for s in e["stages"]))
    log("[C18] %d token mutants, %d byte mutants, %d structure-aware ill-typed edits, %d extreme, %d files; %d accepted by the checker; %s" % (len(mutants), nb, nsem, len(extreme), len(blobs), accepted, dict(stats)))
    new = triage("C18", viols)
    write_evidence("C18", tier, "exploration",
                   {"evaluations": len(traces), "distinct_nontrivial": len(set(srcof.values())),
                    "rule": "all single (thorough: windowed double) token mutations of 3 base programs enumerated by TLC from spec/Mutate.tla; "
                            "random byte-level edits of valid programs; single ill-typed edits of generated well-typed programs (the edit classes of C15); "
                            "extreme shapes; the rejected inputs again through the real `scc check` binary (rendered diagnostics: exit status 0/1, "
                            "no panic); files with invalid UTF-8 through Driver::checked; "
                            "every replay's stage-event trace validated by spec/TracePipeline.tla (a panic is in no alphabet); accepted "
                            "programs with a valid main continue through all three backends; distinct = distinct input texts",
                    "samples": [srcof["tok5"], srcof["byte3"], "x_deep_paren (300 levels)"], "accepted_by_checker": accepted,
                    "states": r["distinct"] + rr["distinct"], "transitions": r["states"] + rr["states"], "outcomes": dict(stats)},
                   time.time() - t0, len(viols))
    return 1 if new else 0


# ---------------------------------------------------------------------------------------------- C15
def parsed_index(q):
    q = dict(q)
    q["ctornames"] = [x["name"] for d in q["data"] for x in d["xtors"]]
    q["dtornames"] = [x["name"] for d in q["codata"] for x in d["xtors"]]
    return q


def check_C15(tier):
    import gen_fun, time, collections, glob
    t0 = time.time()
    build_harness()
    work = fresh_dir(WORK, "C15")
    k = T(tier, 1, 20)
    s = seed()
    lst, label, cls, srcof = [], {}, {}, {}
    for pi, kw in enumerate([dict(mode="any", budget=(8, 24), wide=True), dict(mode="seq", pressure=True, budget=(8, 22)),
                             dict(mode="any", budget=(4, 12), max_main_params=5)]):
        for nm, src, muts in gen_fun.generate_marked(s * 100 + pi, 30 * k, **kw):
            lst.append({"name": nm, "kind": "fun", "src": src})
            label[nm], cls[nm], srcof[nm] = "accept", "well-typed-by-construction", src
            for j, (c, msrc) in enumerate(muts):
                mn = "%s_m%d" % (nm, j)
                lst.append({"name": mn, "kind": "fun", "src": msrc})
                label[mn], cls[mn], srcof[mn] = "reject", c, msrc
    # the repository's own suites: accepted and rejected examples carry their labels too
    for f in sorted(glob.glob(os.path.join(REPO, "testsuite", "success_check", "*.sc")) + glob.glob(os.path.join(REPO, "examples", "*", "*.sc"))):
        nm = "repo_ok_" + os.path.basename(f)[:-3]
        lst.append({"name": nm, "kind": "fun", "path": f})
        label[nm], cls[nm], srcof[nm] = "accept", "repository-success", open(f).read()
    for f in sorted(glob.glob(os.path.join(REPO, "testsuite", "fail_check", "*.sc"))):
        nm = "repo_bad_" + os.path.basename(f)[:-3].replace("-", "_")
        lst.append({"name": nm, "kind": "fun", "path": f})
        label[nm], cls[nm], srcof[nm] = "reject", "repository-fail", open(f).read()
    lp = os.path.join(work, "list.json")
    json.dump(lst, open(lp, "w"))
    art = os.path.join(work, "art")
    sccv("pipeline", lp, art, "parsed", timeout=3000)
    index = {c["name"]: c for c in json.load(open(os.path.join(art, "index.json")))}
    cases, stats = [], collections.Counter()
    for nm, e in index.items():
        st = {x["stage"]: x for x in e["stages"]}
        if st["parse"]["outcome"] != "ok":
            stats["edit-does-not-parse(dropped)"] += 1
            if label[nm] == "accept":
                raise ToolError("constructed program does not parse: %s: %s" % (nm, st["parse"]["msg"][:200]))
            continue
        impl = {"ok": "accept", "error": "reject", "panic": "panic"}[st["check"]["outcome"]]
        cases.append({"name": nm, "prog": parsed_index(json.load(open(os.path.join(art, nm + ".parsed.json")))), "label": label[nm], "impl": impl})
    wd = os.path.join(work, "tlc")
    os.makedirs(wd, exist_ok=True)
    r = tlc_batch_chunked("TypeCheck", "TypeCheck.cfg", wd, cases, envkey="SCCV_CASES", timeout=T(tier, 1500, 7000), xmx="12g")
    viols = []
    percls = collections.Counter()
    for x in r["results"]:
        stats[x["status"]] += 1
        percls[cls[x["case"]]] += 1
        if x["status"] == "tool":
            rp = save_replay("C15", "tool-" + x["case"], {"program": x["case"], "class": cls[x["case"]], "why": x["why"], "source": srcof[x["case"]]})
            raise ToolError("%s (%s, %s): %s; see %s" % (x["case"], cls[x["case"]], label[x["case"]], x["why"], rp))
        if x["status"] == "fail":
            kind = x["why"].split(":")[0].replace(" ", "-")
            rp = save_replay("C15", x["case"], {"program": x["case"], "class": cls[x["case"]], "why": x["why"], "source": srcof[x["case"]],
                                                "check": [s_ for s_ in index[x["case"]]["stages"] if s_["stage"] == "check"]})
            viols.append({"signature": "C15:%s:%s" % (kind, cls[x["case"]]), "replay": rp, "what": "%s (%s): %s" % (x["case"], cls[x["case"]], x["why"])})
    log("[C15] %s; classes %s" % (dict(stats), dict(percls)))
    new = triage("C15", viols)
    write_evidence("C15", tier, "model_checking",
                   {"states": r["distinct"], "transitions": r["states"], "traces_validated_against_impl": len(cases),
                    "samples": [{"class": cls[c["name"]], "label": c["label"], "impl": c["impl"], "source": srcof[c["name"]][:400]} for c in cases[1:4]],
                    "per_class": dict(percls), "outcomes": dict(stats),
                    "rule": "well-typed-by-construction programs and every single certainly ill-typed edit of them (21 classes, up to 3 sites per class "
                            "and program), plus the repository's success/fail suites; three-way agreement construction label = spec/FunTyping.tla "
                            "verdict (else tool error) = type checker verdict (else violation), judged in TLC by spec/TypeCheck.tla"},
                   time.time() - t0, len(viols))
    return 1 if new else 0


# ---------------------------------------------------------------------------------------------- C16
FMT_PREAMBLE = ("data D { A, B(x: i64) }\ndata L[A] { N, Co(h: A, t: L[A]) }\ncodata C { d: i64, e(y: i64): i64 }\n"
                "codata Fn[A, B] { ap(x: A): B }\ndef f(x: i64): i64 { x }\ndef g(x: i64, y: i64): i64 { x }\n")


def signature_family():
    """declarations and signatures: every binding form (producer / covariable) x type nesting x name length x position
    (definition parameter first / last, constructor field, destructor argument) and nested types as return types"""
    decl = ("data D { K }\ndata L[A] { N, C(h: A, t: L[A]) }\ndata P[A, B] { T(a: A, b: B) }\ncodata F[A, B] { ap(x: A): B }\n")
    types = ["i64", "D", "L[i64]", "L[L[i64]]", "L[F[i64, i64]]", "F[i64, L[i64]]", "P[L[i64], F[i64, D]]", "L[L[L[D]]]"]
    out = []
    for ti, ty in enumerate(types):
        for name in ("k", "abc", "a_long_name1"):
            for chi in ("prd", "cns"):
                b = "%s :cns %s" % (name, ty) if chi == "cns" else "%s: %s" % (name, ty)
                forms = {"def_first": "def g(%s, z: i64): i64 { z }\n" % b, "def_last": "def g(z: i64, %s): i64 { z }\n" % b,
                         "def_only": "def g(%s): i64 { 0 }\n" % b,
                         "ctor": "data X { Mk(%s, z: i64) }\n" % b, "dtor": "codata Y { d(%s, z: i64): i64, e: %s }\n" % (b, ty),
                         "ret": "def g(z: i64, %s): %s { exit 0 }\n" % (b, ty)}
                for fk, text in forms.items():
                    out.append({"name": "sig_%d_%s_%s_%s" % (ti, name, chi, fk), "src": decl + text + "def main(): i64 { 0 }\n"})
    return out


def check_C16(tier):
    import re, time, collections, glob, subprocess, gen_fun
    t0 = time.time()
    build_harness()
    work = fresh_dir(WORK, "C16")
    # 1. token sequences derived from the grammar specification
    wd = os.path.join(work, "grammar")
    r = run_tlc("FunGrammar", "FunGrammar.cfg", wd, {}, workers=8, timeout=1500)
    if r["states"] is None or r["rc"] != 0:
        raise ToolError("FunGrammar did not complete: %s" % r["errors"][:2])
    terms = [json.loads(json.loads(l.strip())[len("TERM "):]) for l in open(r["out"]) if l.startswith('"TERM ')]
    terms = sorted(set(tuple(t) for t in terms))
    if len(terms) < 10000:
        raise ToolError("only %d terms derived" % len(terms))
    rng = rng_for("C16")
    if tier == "quick":
        short = [t for t in terms if len(t) <= 14]
        terms = rng.sample(short, min(len(short), 1500)) + rng.sample(terms, 2500)
    sources = [{"name": "g%d" % i, "src": FMT_PREAMBLE + "def main(x: i64): i64 { " + " ".join(t) + " }\n"} for i, t in enumerate(terms)]
    # 2. generated programs and the repository's sources
    for nm, src, a in gen_fun.generate(seed() * 10 + 1, T(tier, 150, 3000), mode="any", pressure=True, budget=(8, 30), wide=True):
        sources.append({"name": "p_" + nm, "src": src})
    sources += signature_family()
    for f in sorted(glob.glob(os.path.join(REPO, "examples", "*", "*.sc")) + glob.glob(os.path.join(REPO, "testsuite", "*", "*.sc")) +
                    glob.glob(os.path.join(REPO, "testsuite", "end_to_end", "*", "*.sc"))):
        sources.append({"name": "repo_" + os.path.basename(f)[:-3].replace("-", "_"), "src": open(f).read()})
    widths = [1, 2, 3, 4, 6, 8, 10, 12, 16, 20, 25, 30, 40, 50, 60, 80, 100, 120, 160, 200]
    indents = [0, 1, 2, 3, 4, 6, 8]
    grid = [[w, i] for w in widths for i in indents]
    runs, nrec = [], 0
    chunks = T(tier, 8, 1)
    for ci in range(chunks):
        part = sources[ci::chunks]
        cfgs = grid if tier == "thorough" else rng.sample(grid, 14)
        sp, op = os.path.join(work, "fmt%d.json" % ci), os.path.join(work, "fmt%d.ndjson" % ci)
        json.dump({"sources": part, "configs": cfgs}, open(sp, "w"))
        sccv("fmt-roundtrip", sp, op, timeout=T(tier, 1500, 20000))
        for l in open(op):
            x = json.loads(l)
            nrec += len(x["records"])
            runs.append(x)
    srcof = {s_["name"]: s_["src"] for s_ in sources}
    # 3. the in-place mode of the real command-line tool on scratch copies
    b = subprocess.run(["cargo", "build", "--offline"], cwd=REPO, stdout=subprocess.PIPE, stderr=subprocess.STDOUT, text=True)
    scc = os.path.join(REPO, "target", "debug", "scc")
    if b.returncode != 0 or not os.path.exists(scc):
        raise ToolError("cannot build the scc binary: " + b.stdout[-800:])
    sdir = os.path.join(work, "inplace")
    os.makedirs(sdir, exist_ok=True)
    cli_sources = [s_ for s_ in sources if s_["name"].startswith(("repo_", "p_"))][:T(tier, 25, 200)] + sources[:T(tier, 25, 200)]
    for k_, s_ in enumerate(cli_sources):
        w, i = rng.choice(widths), rng.choice(indents)
        fp = os.path.join(sdir, "f%d.sc" % k_)
        open(fp, "w").write(s_["src"])
        rec = {"w": w, "i": i, "reparse": True, "tree": True, "fix": True, "nonblank": True, "text": ""}
        pr = subprocess.run([scc, "-n", "fmt", "--inplace", "--width", str(w), "--indent", str(i), fp], stdout=subprocess.PIPE, stderr=subprocess.PIPE, timeout=60)
        parse0 = "ok" if pr.returncode == 0 else "scc fmt failed: " + pr.stderr.decode("latin-1")[:200]
        if pr.returncode == 0:
            t1 = open(fp).read()
            pr2 = subprocess.run([scc, "-n", "fmt", "--inplace", "--width", str(w), "--indent", str(i), fp], stdout=subprocess.PIPE, stderr=subprocess.PIPE, timeout=60)
            rec["reparse"] = pr2.returncode == 0
            rec["fix"] = pr2.returncode == 0 and open(fp).read() == t1
            # the tree is compared through the harness' dump of the parsed program: original source vs the file the tool wrote
            sp2, op2 = os.path.join(sdir, "c%d.json" % k_), os.path.join(sdir, "c%d.ndjson" % k_)
            json.dump({"sources": [{"name": "a", "src": s_["src"]}, {"name": "b", "src": t1}], "configs": []}, open(sp2, "w"))
            sccv("fmt-roundtrip", sp2, op2)
            ab = [json.loads(l) for l in open(op2)]
            rec["tree"] = ab[0]["parse"] == "ok" and ab[1]["parse"] == "ok" and ab[0]["treehash"] == ab[1]["treehash"]
            rec["text"] = "" if rec["tree"] and rec["fix"] else t1
        runs.append({"name": "cli_%d_%s" % (k_, s_["name"]), "parse": parse0, "records": [rec]})
        srcof["cli_%d_%s" % (k_, s_["name"])] = s_["src"]
    runs = [x for x in runs if not (x["parse"] != "ok" and x["name"].startswith(("repo_", "cli_")) and "fail_check" in srcof.get(x["name"], ""))]
    tdir = os.path.join(work, "tlc")
    os.makedirs(tdir, exist_ok=True)
    r2 = tlc_batch_chunked("TraceFmt", "TraceFmt.cfg", tdir,
                           [{"name": x["name"], "parse": x["parse"] if x["parse"] == "ok" else x["parse"][:150],
                             "records": [{k2: v for k2, v in rr.items() if k2 != "text"} for rr in x["records"]]} for x in runs],
                           envkey="SCCV_CASES", timeout=3000)
    viols, stats = [], collections.Counter()
    textof = {x["name"]: next((rr["text"] for rr in x["records"] if rr.get("text")), "") for x in runs}
    for x in r2["results"]:
        stats[x["status"]] += 1
        if x["status"] == "unparsable":
            if x["case"].startswith("g"):
                raise ToolError("spec/FunGrammar.tla derived a program the parser rejects (%s): %s" % (x["case"], srcof[x["case"]][-200:]))
            stats["unparsable-repository-or-generated-source(skipped)"] += 1
            continue
        if x["status"] == "rejected":
            src = srcof[x["case"]]
            # known lexical defect: a zero-test is printed as `t op 0`; when t itself ends in the literal 0 (or is 0) the text
            # `0 op 0` is lexed as the fused token `0 op` followed by 0.  Recognised on the printed text / the source.
            zpat = r"(?<![A-Za-z0-9_])0\s*(==|!=|<=|>=|<|>)\s*0(?![0-9A-Za-z_])"
            zz = re.search(zpat, textof.get(x["case"]) or "") or re.search(zpat, src)
            sig = "C16:zero-test-next-to-literal-zero" if zz else "C16:%s" % lockstep.normalize_why(re.sub(r" at width.*$", "", x["why"]))
            rp = save_replay("C16", x["case"], {"source": src, "why": x["why"], "printed": textof.get(x["case"])})
            viols.append({"signature": sig, "replay": rp, "what": "%s: %s" % (x["case"], x["why"])})
    log("[C16] %d programs (%d from the grammar), %d renderings; %s" % (len(runs), len(terms), nrec, dict(stats)))
    new = triage("C16", viols)
    write_evidence("C16", tier, "exploration",
                   {"evaluations": nrec + len(cli_sources), "distinct_nontrivial": len({s_["src"] for s_ in sources}),
                    "rule": "token sequences of all term forms nested in every operand position to depth 2 derived by TLC from spec/FunGrammar.tla "
                            "(quick: 4000 sampled), generated programs and the repository's sources; each rendered by the real printer at "
                            "sampled (thorough: all 140) width x indent pairs, reparsed, compared as trees, printed again; in-place mode of "
                            "the real scc binary on scratch copies; records judged by spec/TraceFmt.tla; distinct = distinct source texts",
                    "samples": [sources[0]["src"][-120:], sources[len(sources) // 2]["src"][-200:]],
                    "states": r["distinct"] + r2["distinct"], "transitions": r["states"] + r2["states"], "outcomes": dict(stats)},
                   time.time() - t0, len(viols), assumptions=["the layout algorithm of the pretty crate is not modelled, only its effect on the token stream"])
    return 1 if new else 0
