"""Tokenizer for the RISC-V pseudo-assembly printed by axcut2rv64 (operands separated by blanks)."""
import re, sys, json
from tok_common import TokError, imm, parse_mark

REG = re.compile(r"^X([0-9]|[12][0-9]|3[01])$", re.I)
IDENT = re.compile(r"^[A-Za-z_.$][\w.$]*$")
SHAPES = {  # mnemonic -> operand kinds (r register, i immediate, l label, x register-or-immediate)
    "ADD": "rrx", "SUB": "rrr", "MUL": "rrr", "DIV": "rrr", "REM": "rrr", "JAL": "rl", "JALR": "rri", "LA": "rl",
    "LI": "ri", "MV": "rr", "LW": "rir", "SW": "rir", "BEQ": "rrl", "BNE": "rrl", "BLT": "rrl", "BLE": "rrl",
    "BGT": "rrl", "BGE": "rrl",
    # forms the backend does not print today but another instruction selection may (modelled in spec/RV64.tla)
    "SLLI": "rri", "SRLI": "rri", "SRAI": "rri", "AND": "rrx", "OR": "rrx", "XOR": "rrx"}

# standard pseudo-instructions are rewritten to the base instructions they stand for (RISC-V assembly manual)
PSEUDO = {
    "BEQZ": lambda r, l: ["BEQ", r, "X0", l], "BNEZ": lambda r, l: ["BNE", r, "X0", l], "BLTZ": lambda r, l: ["BLT", r, "X0", l],
    "BGEZ": lambda r, l: ["BGE", r, "X0", l], "BLEZ": lambda r, l: ["BLE", r, "X0", l], "BGTZ": lambda r, l: ["BGT", r, "X0", l],
    "J": lambda l: ["JAL", "X0", l], "JR": lambda r: ["JALR", "X0", r, "0"], "NEG": lambda d, r: ["SUB", d, "X0", r],
    "ADDI": lambda d, r, i: ["ADD", d, r, i], "NOP": lambda: ["ADD", "X0", "X0", "0"], "LD": lambda d, i, r: ["LW", d, i, r],
    "SD": lambda d, i, r: ["SW", d, i, r], "ANDI": lambda d, r, i: ["AND", d, r, i], "ORI": lambda d, r, i: ["OR", d, r, i],
    "XORI": lambda d, r, i: ["XOR", d, r, i],
}


def operand(kind, s):
    if kind in "rx" and REG.match(s):
        return {"k": "reg", "r": s.upper()}
    if kind in "ix" and re.match(r"^-?\d+$", s):
        return imm(s)
    if kind == "l" and IDENT.match(s):
        return {"k": "lab", "l": s}
    raise TokError("operand %r does not fit kind %s" % (s, kind))

def tokenize(text):
    out = []
    for ln, line in enumerate(text.split("\n"), 1):
        code, _, com = line.partition("//")
        code, com = code.strip(), com.strip()
        if not code:
            if com.startswith("@mark"):
                out.append(parse_mark(com))
            continue
        if code.endswith(":"):
            l = code[:-1].strip()
            if not IDENT.match(l):
                raise TokError("line %d: bad label %r" % (ln, line))
            out.append({"op": "label", "l": l})
            continue
        parts = code.replace(",", " ").split()
        parts[0] = parts[0].upper()
        if parts[0] in PSEUDO:
            try:
                parts = PSEUDO[parts[0]](*parts[1:])
            except TypeError:
                raise TokError("line %d: unknown instruction %r" % (ln, line))
        if parts[0] not in SHAPES or len(parts) - 1 != len(SHAPES[parts[0]]):
            raise TokError("line %d: unknown instruction %r" % (ln, line))
        out.append({"op": parts[0], "a": [operand(k, p) for k, p in zip(SHAPES[parts[0]], parts[1:])]})
    return out, []

if __name__ == "__main__":
    print(json.dumps(tokenize(open(sys.argv[1]).read())[0]))
