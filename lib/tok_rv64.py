"""Tokenizer for the RISC-V pseudo-assembly printed by axcut2rv64 (operands separated by blanks)."""
import re, sys, json
from tok_common import TokError, imm, parse_mark

REG = re.compile(r"^X([0-9]|[12][0-9]|3[01])$")
IDENT = re.compile(r"^[A-Za-z_.$][\w.$]*$")
SHAPES = {  # mnemonic -> operand kinds (r register, i immediate, l label, x register-or-immediate)
    "ADD": "rrx", "SUB": "rrr", "MUL": "rrr", "DIV": "rrr", "REM": "rrr", "JAL": "rl", "JALR": "rri", "LA": "rl",
    "LI": "ri", "MV": "rr", "LW": "rir", "SW": "rir", "BEQ": "rrl", "BNE": "rrl", "BLT": "rrl", "BLE": "rrl",
    "BGT": "rrl", "BGE": "rrl"}

def operand(kind, s):
    if kind in "rx" and REG.match(s):
        return {"k": "reg", "r": s}
    if kind in "ix" and re.match(r"^-?\d+$", s):
        return imm(s)
    if kind == "l" and IDENT.match(s):
        return {"k": "lab", "l": s}
    raise TokError("operand %r does not fit kind %s" % (s, kind))

def tokenize(text):
    out = []
    for ln, line in enumerate(text.split("\n"), 1):
        code, _, com = line.partition("//")
        code, com = code.strip(), com.strip()
        if not code:
            if com.startswith("@mark"):
                out.append(parse_mark(com))
            continue
        if code.endswith(":"):
            l = code[:-1].strip()
            if not IDENT.match(l):
                raise TokError("line %d: bad label %r" % (ln, line))
            out.append({"op": "label", "l": l})
            continue
        parts = code.split()
        if parts[0] not in SHAPES or len(parts) - 1 != len(SHAPES[parts[0]]):
            raise TokError("line %d: unknown instruction %r" % (ln, line))
        out.append({"op": parts[0], "a": [operand(k, p) for k, p in zip(SHAPES[parts[0]], parts[1:])]})
    return out, []

if __name__ == "__main__":
    print(json.dumps(tokenize(open(sys.argv[1]).read())[0]))
