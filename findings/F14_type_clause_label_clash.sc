data T { A_19, B }
data T_18_A { C, D }
def f(t: T): i64 { t.case { A_19 => 1, B => 2 } }
def g(u: T_18_A): i64 { u.case { C => 3, D => 4 } }
def main(): i64 { println_i64(f(B) + g(D)); 0 }
