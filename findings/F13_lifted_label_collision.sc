data L { N, C(h: i64, t: L) }
def mk(n: i64): L { if n == 0 { N } else { C(n, N) } }
def lift_main__18(n: i64): i64 { n + 1 }
def main(n: i64): i64 { let l: L = mk(n); l.case { N => lift_main__18(0), C(h, t) => h + 1 } }
