data D0 { K0_0 }
codata C0 { d0_0: D0 }
def main(): i64 { let m: C0 = new { d0_0 => K0_0 }; 0 }
