def main(x: i64): i64 { if 0 != exit 0 { x } else { x } }
