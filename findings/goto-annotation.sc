data D0 { K0_0 }
def f(k :cns D0): i64 { if 1 == 2 { goto k (K0_0) } else { 3 } }
def main(): i64 { label a { f(a).case { K0_0 => 7 } } }
