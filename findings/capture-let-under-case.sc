data List { Nil, Cons(x: i64, xs: List) }
def f(x: i64, l: List): i64 { let y: i64 = l.case { Nil => 0, Cons(x, xs) => x }; y + x }
def main(): i64 { println_i64(f(10, Cons(1, Nil))); 0 }
