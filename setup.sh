#!/bin/sh
# Run once after a fresh restore, offline: build the harness from files on disk and parse every spec module.
set -e
cd "$(dirname "$0")"
export CARGO_NET_OFFLINE=true
(cd harness && cargo build --release --offline)
cd spec
for m in *.tla; do
  tla-sany "$m" > /dev/null || { echo "SANY failed on $m"; exit 1; }
done
cd ..
python3 selftest/word64.py 1200 || { echo "Word64 conformance failed"; exit 1; }
echo "setup ok"
