data Lst { Nil, Cons(h: i64, t: Lst) }
codata Fn { ap(x: i64): i64, twice(x: i64): i64 }
def fi(k: i64): i64 { print_i64(k); k + 100 }
def fl(k: i64): Lst { print_i64(k); Cons(k, Nil) }
def ff(k: i64): Fn { print_i64(k); new { ap(x) => x + k, twice(x) => (x + x) + k } }
def usei(x: i64): i64 { x + 1 }
def usel(l: Lst): i64 { l.case { Nil => 0, Cons(h, t) => h } }
def usef(f: Fn): i64 { f.ap(1) }
def main(n: i64): i64 {
  println_i64(let w92: Lst = Cons(40, Nil); let v92: Lst = label a92 { fl(92) }; (v92.case { Nil => 0, Cons(h, t) => h }) + (v92.case { Nil => 1, Cons(h2, t2) => h2 + 1 }));
  println_i64(let w94: Lst = Cons(40, Nil); let v94: Lst = label a94 { fl(94) }; usel(v94));
  println_i64(let w96: Lst = Cons(40, Nil); let v96: Lst = label a96 { fl(96) }; v96.case { Nil => n, Cons(h, t) => n });
  println_i64(let w98: Lst = Cons(40, Nil); let v98: Lst = label a98 { fl(98) }; w98.case { Nil => n, Cons(h, t) => n });
  println_i64(let w100: Lst = Cons(40, Nil); let v100: Lst = if n == 0 { fl(100) } else { fl(101) }; v100.case { Nil => 0, Cons(h, t) => h });
  println_i64(let w102: Lst = Cons(40, Nil); let v102: Lst = if n == 0 { fl(102) } else { fl(103) }; 7);
  println_i64(let w104: Lst = Cons(40, Nil); let v104: Lst = if n == 0 { fl(104) } else { fl(105) }; w104.case { Nil => 0, Cons(h, t) => h });
  println_i64(let w106: Lst = Cons(40, Nil); let v106: Lst = if n == 0 { fl(106) } else { fl(107) }; (v106.case { Nil => 0, Cons(h, t) => h }) + (v106.case { Nil => 1, Cons(h2, t2) => h2 + 1 }));
  println_i64(let w108: Lst = Cons(40, Nil); let v108: Lst = if n == 0 { fl(108) } else { fl(109) }; usel(v108));
  println_i64(let w110: Lst = Cons(40, Nil); let v110: Lst = if n == 0 { fl(110) } else { fl(111) }; v110.case { Nil => n, Cons(h, t) => n });
  println_i64(let w112: Lst = Cons(40, Nil); let v112: Lst = if n == 0 { fl(112) } else { fl(113) }; w112.case { Nil => n, Cons(h, t) => n });
  println_i64(let w114: Lst = Cons(40, Nil); let v114: Lst = (print_i64(114); Cons(5, Nil)); v114.case { Nil => 0, Cons(h, t) => h });
  println_i64(let w116: Lst = Cons(40, Nil); let v116: Lst = (print_i64(116); Cons(5, Nil)); 7);
  println_i64(let w118: Lst = Cons(40, Nil); let v118: Lst = (print_i64(118); Cons(5, Nil)); w118.case { Nil => 0, Cons(h, t) => h });
  println_i64(let w120: Lst = Cons(40, Nil); let v120: Lst = (print_i64(120); Cons(5, Nil)); (v120.case { Nil => 0, Cons(h, t) => h }) + (v120.case { Nil => 1, Cons(h2, t2) => h2 + 1 }));
  0
}
