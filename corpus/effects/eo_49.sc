data Pair { Tup(a: i64, b: i64) }
data W { Wrap(p: Pair, z: i64) }
data Lst { Nil, Cons(h: i64, t: Lst) }
codata Fn { ap(x: i64): i64 }
def f(x: i64, y: i64): i64 { x - y }
def pick(p: Pair, z: i64): i64 { p.case { Tup(a, b) => (a - b) + z } }
def hd2(l: Lst, z: i64): i64 { l.case { Nil => z, Cons(h, t) => t.case { Nil => h, Cons(h2, t2) => (h - h2) + z } } }
def mk(c: i64): Fn { new { ap(x) => x - c } }
def main(): i64 {
  println_i64(let v: i64 = (if ((print_i64(1); 1)) < ((print_i64(2); 2)) { 1 } else { 2 }); ((f((print_i64(3); 3), (print_i64(4); 4)))) * v);
  println_i64(let v: i64 = (if ((print_i64(5); 5)) < ((print_i64(6); 6)) { 1 } else { 2 }); ((Tup((print_i64(7); 7), (print_i64(8); 8)).case { Tup(a, b) => a - b })) * v);
  println_i64(let v: i64 = (if ((print_i64(9); 9)) < ((print_i64(10); 10)) { 1 } else { 2 }); ((if ((print_i64(11); 11)) < ((print_i64(12); 12)) { 1 } else { 2 })) * v);
  println_i64(let v: i64 = (if ((print_i64(13); 13)) < ((print_i64(14); 14)) { 1 } else { 2 }); ((mk((print_i64(15); 15)).ap((print_i64(16); 16)))) * v);
  println_i64(let v: i64 = (if ((print_i64(17); 17)) < ((print_i64(18); 18)) { 1 } else { 2 }); ((let v: i64 = (print_i64(19); 19); ((print_i64(20); 20)) * v)) * v);
  println_i64(let v: i64 = (if ((print_i64(21); 21)) < ((print_i64(22); 22)) { 1 } else { 2 }); ((pick(Tup((print_i64(23); 23), (print_i64(24); 24)), (print_i64(25); 25)))) * v);
  println_i64(let v: i64 = (if ((print_i64(26); 26)) < ((print_i64(27); 27)) { 1 } else { 2 }); ((Wrap(Tup((print_i64(28); 28), (print_i64(29); 29)), (print_i64(30); 30)).case { Wrap(p, z) => pick(p, z) })) * v);
  println_i64(let v: i64 = (if ((print_i64(31); 31)) < ((print_i64(32); 32)) { 1 } else { 2 }); ((hd2(Cons((print_i64(33); 33), Cons((print_i64(34); 34), Nil)), (print_i64(35); 35)))) * v);
  println_i64(let v: i64 = (mk((print_i64(36); 36)).ap((print_i64(37); 37))); ((print_i64(38); 38)) * v);
  println_i64(let v: i64 = (mk((print_i64(39); 39)).ap((print_i64(40); 40))); ((((print_i64(41); 41)) + ((print_i64(42); 42)))) * v);
  println_i64(let v: i64 = (mk((print_i64(43); 43)).ap((print_i64(44); 44))); ((((print_i64(45); 45)) - ((print_i64(46); 46)))) * v);
  println_i64(let v: i64 = (mk((print_i64(47); 47)).ap((print_i64(48); 48))); ((f((print_i64(49); 49), (print_i64(50); 50)))) * v);
  println_i64(let v: i64 = (mk((print_i64(51); 51)).ap((print_i64(52); 52))); ((Tup((print_i64(53); 53), (print_i64(54); 54)).case { Tup(a, b) => a - b })) * v);
  println_i64(let v: i64 = (mk((print_i64(55); 55)).ap((print_i64(56); 56))); ((if ((print_i64(57); 57)) < ((print_i64(58); 58)) { 1 } else { 2 })) * v);
  println_i64(let v: i64 = (mk((print_i64(59); 59)).ap((print_i64(60); 60))); ((mk((print_i64(61); 61)).ap((print_i64(62); 62)))) * v);
  println_i64(let v: i64 = (mk((print_i64(63); 63)).ap((print_i64(64); 64))); ((let v: i64 = (print_i64(65); 65); ((print_i64(66); 66)) * v)) * v);
  0
}
