data Lst { Nil, Cons(h: i64, t: Lst) }
codata Fn { ap(x: i64): i64, twice(x: i64): i64 }
def fi(k: i64): i64 { print_i64(k); k + 100 }
def fl(k: i64): Lst { print_i64(k); Cons(k, Nil) }
def ff(k: i64): Fn { print_i64(k); new { ap(x) => x + k, twice(x) => (x + x) + k } }
def usei(x: i64): i64 { x + 1 }
def usel(l: Lst): i64 { l.case { Nil => 0, Cons(h, t) => h } }
def usef(f: Fn): i64 { f.ap(1) }
def main(n: i64): i64 {
  println_i64(let w62: i64 = 40; let v62: i64 = label b62 { if n == 0 { goto b62 (5) } else { fi(62) } }; w62 + 1);
  println_i64(let w64: i64 = 40; let v64: i64 = label b64 { if n == 0 { goto b64 (5) } else { fi(64) } }; (v64 + 1) + (v64 + 2));
  println_i64(let w66: i64 = 40; let v66: i64 = label b66 { if n == 0 { goto b66 (5) } else { fi(66) } }; usei(v66));
  println_i64(let w68: i64 = 40; let v68: i64 = label b68 { if n == 0 { goto b68 (5) } else { fi(68) } }; v68 + n);
  println_i64(let w70: i64 = 40; let v70: i64 = label b70 { if n == 0 { goto b70 (5) } else { fi(70) } }; w70 + n);
  println_i64(let w72: Lst = Cons(40, Nil); let v72: Lst = fl(72); v72.case { Nil => 0, Cons(h, t) => h });
  println_i64(let w74: Lst = Cons(40, Nil); let v74: Lst = fl(74); 7);
  println_i64(let w76: Lst = Cons(40, Nil); let v76: Lst = fl(76); w76.case { Nil => 0, Cons(h, t) => h });
  println_i64(let w78: Lst = Cons(40, Nil); let v78: Lst = fl(78); (v78.case { Nil => 0, Cons(h, t) => h }) + (v78.case { Nil => 1, Cons(h2, t2) => h2 + 1 }));
  println_i64(let w80: Lst = Cons(40, Nil); let v80: Lst = fl(80); usel(v80));
  println_i64(let w82: Lst = Cons(40, Nil); let v82: Lst = fl(82); v82.case { Nil => n, Cons(h, t) => n });
  println_i64(let w84: Lst = Cons(40, Nil); let v84: Lst = fl(84); w84.case { Nil => n, Cons(h, t) => n });
  println_i64(let w86: Lst = Cons(40, Nil); let v86: Lst = label a86 { fl(86) }; v86.case { Nil => 0, Cons(h, t) => h });
  println_i64(let w88: Lst = Cons(40, Nil); let v88: Lst = label a88 { fl(88) }; 7);
  println_i64(let w90: Lst = Cons(40, Nil); let v90: Lst = label a90 { fl(90) }; w90.case { Nil => 0, Cons(h, t) => h });
  0
}
