data Lst { Nil, Cons(h: i64, t: Lst) }
codata Fn { ap(x: i64): i64, twice(x: i64): i64 }
def fi(k: i64): i64 { print_i64(k); k + 100 }
def fl(k: i64): Lst { print_i64(k); Cons(k, Nil) }
def ff(k: i64): Fn { print_i64(k); new { ap(x) => x + k, twice(x) => (x + x) + k } }
def usei(x: i64): i64 { x + 1 }
def usel(l: Lst): i64 { l.case { Nil => 0, Cons(h, t) => h } }
def usef(f: Fn): i64 { f.ap(1) }
def main(n: i64): i64 {
  println_i64(let w2: i64 = 40; let v2: i64 = fi(2); v2 + 1);
  println_i64(let w4: i64 = 40; let v4: i64 = fi(4); 7);
  println_i64(let w6: i64 = 40; let v6: i64 = fi(6); w6 + 1);
  println_i64(let w8: i64 = 40; let v8: i64 = fi(8); (v8 + 1) + (v8 + 2));
  println_i64(let w10: i64 = 40; let v10: i64 = fi(10); usei(v10));
  println_i64(let w12: i64 = 40; let v12: i64 = fi(12); v12 + n);
  println_i64(let w14: i64 = 40; let v14: i64 = fi(14); w14 + n);
  println_i64(let w16: i64 = 40; let v16: i64 = label a16 { fi(16) }; v16 + 1);
  println_i64(let w18: i64 = 40; let v18: i64 = label a18 { fi(18) }; 7);
  println_i64(let w20: i64 = 40; let v20: i64 = label a20 { fi(20) }; w20 + 1);
  println_i64(let w22: i64 = 40; let v22: i64 = label a22 { fi(22) }; (v22 + 1) + (v22 + 2));
  println_i64(let w24: i64 = 40; let v24: i64 = label a24 { fi(24) }; usei(v24));
  println_i64(let w26: i64 = 40; let v26: i64 = label a26 { fi(26) }; v26 + n);
  println_i64(let w28: i64 = 40; let v28: i64 = label a28 { fi(28) }; w28 + n);
  println_i64(let w30: i64 = 40; let v30: i64 = if n == 0 { fi(30) } else { fi(31) }; v30 + 1);
  0
}
