data Lst { Nil, Cons(h: i64, t: Lst) }
codata Fn { ap(x: i64): i64, twice(x: i64): i64 }
def fi(k: i64): i64 { print_i64(k); k + 100 }
def fl(k: i64): Lst { print_i64(k); Cons(k, Nil) }
def ff(k: i64): Fn { print_i64(k); new { ap(x) => x + k, twice(x) => (x + x) + k } }
def usei(x: i64): i64 { x + 1 }
def usel(l: Lst): i64 { l.case { Nil => 0, Cons(h, t) => h } }
def usef(f: Fn): i64 { f.ap(1) }
def main(n: i64): i64 {
  println_i64(let w32: i64 = 40; let v32: i64 = if n == 0 { fi(32) } else { fi(33) }; 7);
  println_i64(let w34: i64 = 40; let v34: i64 = if n == 0 { fi(34) } else { fi(35) }; w34 + 1);
  println_i64(let w36: i64 = 40; let v36: i64 = if n == 0 { fi(36) } else { fi(37) }; (v36 + 1) + (v36 + 2));
  println_i64(let w38: i64 = 40; let v38: i64 = if n == 0 { fi(38) } else { fi(39) }; usei(v38));
  println_i64(let w40: i64 = 40; let v40: i64 = if n == 0 { fi(40) } else { fi(41) }; v40 + n);
  println_i64(let w42: i64 = 40; let v42: i64 = if n == 0 { fi(42) } else { fi(43) }; w42 + n);
  println_i64(let w44: i64 = 40; let v44: i64 = (print_i64(44); 5); v44 + 1);
  println_i64(let w46: i64 = 40; let v46: i64 = (print_i64(46); 5); 7);
  println_i64(let w48: i64 = 40; let v48: i64 = (print_i64(48); 5); w48 + 1);
  println_i64(let w50: i64 = 40; let v50: i64 = (print_i64(50); 5); (v50 + 1) + (v50 + 2));
  println_i64(let w52: i64 = 40; let v52: i64 = (print_i64(52); 5); usei(v52));
  println_i64(let w54: i64 = 40; let v54: i64 = (print_i64(54); 5); v54 + n);
  println_i64(let w56: i64 = 40; let v56: i64 = (print_i64(56); 5); w56 + n);
  println_i64(let w58: i64 = 40; let v58: i64 = label b58 { if n == 0 { goto b58 (5) } else { fi(58) } }; v58 + 1);
  println_i64(let w60: i64 = 40; let v60: i64 = label b60 { if n == 0 { goto b60 (5) } else { fi(60) } }; 7);
  0
}
