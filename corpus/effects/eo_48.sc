data Pair { Tup(a: i64, b: i64) }
data W { Wrap(p: Pair, z: i64) }
data Lst { Nil, Cons(h: i64, t: Lst) }
codata Fn { ap(x: i64): i64 }
def f(x: i64, y: i64): i64 { x - y }
def pick(p: Pair, z: i64): i64 { p.case { Tup(a, b) => (a - b) + z } }
def hd2(l: Lst, z: i64): i64 { l.case { Nil => z, Cons(h, t) => t.case { Nil => h, Cons(h2, t2) => (h - h2) + z } } }
def mk(c: i64): Fn { new { ap(x) => x - c } }
def main(): i64 {
  println_i64(let v: i64 = (f((print_i64(1); 1), (print_i64(2); 2))); ((Wrap(Tup((print_i64(3); 3), (print_i64(4); 4)), (print_i64(5); 5)).case { Wrap(p, z) => pick(p, z) })) * v);
  println_i64(let v: i64 = (f((print_i64(6); 6), (print_i64(7); 7))); ((hd2(Cons((print_i64(8); 8), Cons((print_i64(9); 9), Nil)), (print_i64(10); 10)))) * v);
  println_i64(let v: i64 = (Tup((print_i64(11); 11), (print_i64(12); 12)).case { Tup(a, b) => a - b }); ((print_i64(13); 13)) * v);
  println_i64(let v: i64 = (Tup((print_i64(14); 14), (print_i64(15); 15)).case { Tup(a, b) => a - b }); ((((print_i64(16); 16)) + ((print_i64(17); 17)))) * v);
  println_i64(let v: i64 = (Tup((print_i64(18); 18), (print_i64(19); 19)).case { Tup(a, b) => a - b }); ((((print_i64(20); 20)) - ((print_i64(21); 21)))) * v);
  println_i64(let v: i64 = (Tup((print_i64(22); 22), (print_i64(23); 23)).case { Tup(a, b) => a - b }); ((f((print_i64(24); 24), (print_i64(25); 25)))) * v);
  println_i64(let v: i64 = (Tup((print_i64(26); 26), (print_i64(27); 27)).case { Tup(a, b) => a - b }); ((Tup((print_i64(28); 28), (print_i64(29); 29)).case { Tup(a, b) => a - b })) * v);
  println_i64(let v: i64 = (Tup((print_i64(30); 30), (print_i64(31); 31)).case { Tup(a, b) => a - b }); ((if ((print_i64(32); 32)) < ((print_i64(33); 33)) { 1 } else { 2 })) * v);
  println_i64(let v: i64 = (Tup((print_i64(34); 34), (print_i64(35); 35)).case { Tup(a, b) => a - b }); ((mk((print_i64(36); 36)).ap((print_i64(37); 37)))) * v);
  println_i64(let v: i64 = (Tup((print_i64(38); 38), (print_i64(39); 39)).case { Tup(a, b) => a - b }); ((let v: i64 = (print_i64(40); 40); ((print_i64(41); 41)) * v)) * v);
  println_i64(let v: i64 = (Tup((print_i64(42); 42), (print_i64(43); 43)).case { Tup(a, b) => a - b }); ((pick(Tup((print_i64(44); 44), (print_i64(45); 45)), (print_i64(46); 46)))) * v);
  println_i64(let v: i64 = (Tup((print_i64(47); 47), (print_i64(48); 48)).case { Tup(a, b) => a - b }); ((Wrap(Tup((print_i64(49); 49), (print_i64(50); 50)), (print_i64(51); 51)).case { Wrap(p, z) => pick(p, z) })) * v);
  println_i64(let v: i64 = (Tup((print_i64(52); 52), (print_i64(53); 53)).case { Tup(a, b) => a - b }); ((hd2(Cons((print_i64(54); 54), Cons((print_i64(55); 55), Nil)), (print_i64(56); 56)))) * v);
  println_i64(let v: i64 = (if ((print_i64(57); 57)) < ((print_i64(58); 58)) { 1 } else { 2 }); ((print_i64(59); 59)) * v);
  println_i64(let v: i64 = (if ((print_i64(60); 60)) < ((print_i64(61); 61)) { 1 } else { 2 }); ((((print_i64(62); 62)) + ((print_i64(63); 63)))) * v);
  println_i64(let v: i64 = (if ((print_i64(64); 64)) < ((print_i64(65); 65)) { 1 } else { 2 }); ((((print_i64(66); 66)) - ((print_i64(67); 67)))) * v);
  0
}
