data Lst { Nil, Cons(h: i64, t: Lst) }
codata Fn { ap(x: i64): i64, twice(x: i64): i64 }
def fi(k: i64): i64 { print_i64(k); k + 100 }
def fl(k: i64): Lst { print_i64(k); Cons(k, Nil) }
def ff(k: i64): Fn { print_i64(k); new { ap(x) => x + k, twice(x) => (x + x) + k } }
def usei(x: i64): i64 { x + 1 }
def usel(l: Lst): i64 { l.case { Nil => 0, Cons(h, t) => h } }
def usef(f: Fn): i64 { f.ap(1) }
def main(n: i64): i64 {
  println_i64(let w182: Fn = new { ap(x) => x + 40, twice(x) => x }; let v182: Fn = if n == 0 { ff(182) } else { ff(183) }; w182.ap(n));
  println_i64(let w184: Fn = new { ap(x) => x + 40, twice(x) => x }; let v184: Fn = (print_i64(184); new { ap(x) => x, twice(x) => x + x }); v184.ap(5));
  println_i64(let w186: Fn = new { ap(x) => x + 40, twice(x) => x }; let v186: Fn = (print_i64(186); new { ap(x) => x, twice(x) => x + x }); 7);
  println_i64(let w188: Fn = new { ap(x) => x + 40, twice(x) => x }; let v188: Fn = (print_i64(188); new { ap(x) => x, twice(x) => x + x }); w188.ap(5));
  println_i64(let w190: Fn = new { ap(x) => x + 40, twice(x) => x }; let v190: Fn = (print_i64(190); new { ap(x) => x, twice(x) => x + x }); (v190.ap(1)) + (v190.twice(2)));
  println_i64(let w192: Fn = new { ap(x) => x + 40, twice(x) => x }; let v192: Fn = (print_i64(192); new { ap(x) => x, twice(x) => x + x }); usef(v192));
  println_i64(let w194: Fn = new { ap(x) => x + 40, twice(x) => x }; let v194: Fn = (print_i64(194); new { ap(x) => x, twice(x) => x + x }); v194.ap(n));
  println_i64(let w196: Fn = new { ap(x) => x + 40, twice(x) => x }; let v196: Fn = (print_i64(196); new { ap(x) => x, twice(x) => x + x }); w196.ap(n));
  println_i64(let w198: Fn = new { ap(x) => x + 40, twice(x) => x }; let v198: Fn = label b198 { if n == 0 { goto b198 (new { ap(x) => x, twice(x) => x + x }) } else { ff(198) } }; v198.ap(5));
  println_i64(let w200: Fn = new { ap(x) => x + 40, twice(x) => x }; let v200: Fn = label b200 { if n == 0 { goto b200 (new { ap(x) => x, twice(x) => x + x }) } else { ff(200) } }; 7);
  println_i64(let w202: Fn = new { ap(x) => x + 40, twice(x) => x }; let v202: Fn = label b202 { if n == 0 { goto b202 (new { ap(x) => x, twice(x) => x + x }) } else { ff(202) } }; w202.ap(5));
  println_i64(let w204: Fn = new { ap(x) => x + 40, twice(x) => x }; let v204: Fn = label b204 { if n == 0 { goto b204 (new { ap(x) => x, twice(x) => x + x }) } else { ff(204) } }; (v204.ap(1)) + (v204.twice(2)));
  println_i64(let w206: Fn = new { ap(x) => x + 40, twice(x) => x }; let v206: Fn = label b206 { if n == 0 { goto b206 (new { ap(x) => x, twice(x) => x + x }) } else { ff(206) } }; usef(v206));
  println_i64(let w208: Fn = new { ap(x) => x + 40, twice(x) => x }; let v208: Fn = label b208 { if n == 0 { goto b208 (new { ap(x) => x, twice(x) => x + x }) } else { ff(208) } }; v208.ap(n));
  println_i64(let w210: Fn = new { ap(x) => x + 40, twice(x) => x }; let v210: Fn = label b210 { if n == 0 { goto b210 (new { ap(x) => x, twice(x) => x + x }) } else { ff(210) } }; w210.ap(n));
  0
}
