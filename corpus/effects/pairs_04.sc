data Lst { Nil, Cons(h: i64, t: Lst) }
codata Fn { ap(x: i64): i64, twice(x: i64): i64 }
def fi(k: i64): i64 { print_i64(k); k + 100 }
def fl(k: i64): Lst { print_i64(k); Cons(k, Nil) }
def ff(k: i64): Fn { print_i64(k); new { ap(x) => x + k, twice(x) => (x + x) + k } }
def usei(x: i64): i64 { x + 1 }
def usel(l: Lst): i64 { l.case { Nil => 0, Cons(h, t) => h } }
def usef(f: Fn): i64 { f.ap(1) }
def main(n: i64): i64 {
  println_i64(let w122: Lst = Cons(40, Nil); let v122: Lst = (print_i64(122); Cons(5, Nil)); usel(v122));
  println_i64(let w124: Lst = Cons(40, Nil); let v124: Lst = (print_i64(124); Cons(5, Nil)); v124.case { Nil => n, Cons(h, t) => n });
  println_i64(let w126: Lst = Cons(40, Nil); let v126: Lst = (print_i64(126); Cons(5, Nil)); w126.case { Nil => n, Cons(h, t) => n });
  println_i64(let w128: Lst = Cons(40, Nil); let v128: Lst = label b128 { if n == 0 { goto b128 (Cons(5, Nil)) } else { fl(128) } }; v128.case { Nil => 0, Cons(h, t) => h });
  println_i64(let w130: Lst = Cons(40, Nil); let v130: Lst = label b130 { if n == 0 { goto b130 (Cons(5, Nil)) } else { fl(130) } }; 7);
  println_i64(let w132: Lst = Cons(40, Nil); let v132: Lst = label b132 { if n == 0 { goto b132 (Cons(5, Nil)) } else { fl(132) } }; w132.case { Nil => 0, Cons(h, t) => h });
  println_i64(let w134: Lst = Cons(40, Nil); let v134: Lst = label b134 { if n == 0 { goto b134 (Cons(5, Nil)) } else { fl(134) } }; (v134.case { Nil => 0, Cons(h, t) => h }) + (v134.case { Nil => 1, Cons(h2, t2) => h2 + 1 }));
  println_i64(let w136: Lst = Cons(40, Nil); let v136: Lst = label b136 { if n == 0 { goto b136 (Cons(5, Nil)) } else { fl(136) } }; usel(v136));
  println_i64(let w138: Lst = Cons(40, Nil); let v138: Lst = label b138 { if n == 0 { goto b138 (Cons(5, Nil)) } else { fl(138) } }; v138.case { Nil => n, Cons(h, t) => n });
  println_i64(let w140: Lst = Cons(40, Nil); let v140: Lst = label b140 { if n == 0 { goto b140 (Cons(5, Nil)) } else { fl(140) } }; w140.case { Nil => n, Cons(h, t) => n });
  println_i64(let w142: Fn = new { ap(x) => x + 40, twice(x) => x }; let v142: Fn = ff(142); v142.ap(5));
  println_i64(let w144: Fn = new { ap(x) => x + 40, twice(x) => x }; let v144: Fn = ff(144); 7);
  println_i64(let w146: Fn = new { ap(x) => x + 40, twice(x) => x }; let v146: Fn = ff(146); w146.ap(5));
  println_i64(let w148: Fn = new { ap(x) => x + 40, twice(x) => x }; let v148: Fn = ff(148); (v148.ap(1)) + (v148.twice(2)));
  println_i64(let w150: Fn = new { ap(x) => x + 40, twice(x) => x }; let v150: Fn = ff(150); usef(v150));
  0
}
