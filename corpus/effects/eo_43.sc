data Pair { Tup(a: i64, b: i64) }
data W { Wrap(p: Pair, z: i64) }
data Lst { Nil, Cons(h: i64, t: Lst) }
codata Fn { ap(x: i64): i64 }
def f(x: i64, y: i64): i64 { x - y }
def pick(p: Pair, z: i64): i64 { p.case { Tup(a, b) => (a - b) + z } }
def hd2(l: Lst, z: i64): i64 { l.case { Nil => z, Cons(h, t) => t.case { Nil => h, Cons(h2, t2) => (h - h2) + z } } }
def mk(c: i64): Fn { new { ap(x) => x - c } }
def main(): i64 {
  println_i64(mk((let v: i64 = (print_i64(1); 1); ((print_i64(2); 2)) * v)).ap((mk((print_i64(3); 3)).ap((print_i64(4); 4)))));
  println_i64(mk((let v: i64 = (print_i64(5); 5); ((print_i64(6); 6)) * v)).ap((let v: i64 = (print_i64(7); 7); ((print_i64(8); 8)) * v)));
  println_i64(mk((let v: i64 = (print_i64(9); 9); ((print_i64(10); 10)) * v)).ap((pick(Tup((print_i64(11); 11), (print_i64(12); 12)), (print_i64(13); 13)))));
  println_i64(mk((let v: i64 = (print_i64(14); 14); ((print_i64(15); 15)) * v)).ap((Wrap(Tup((print_i64(16); 16), (print_i64(17); 17)), (print_i64(18); 18)).case { Wrap(p, z) => pick(p, z) })));
  println_i64(mk((let v: i64 = (print_i64(19); 19); ((print_i64(20); 20)) * v)).ap((hd2(Cons((print_i64(21); 21), Cons((print_i64(22); 22), Nil)), (print_i64(23); 23)))));
  println_i64(mk((pick(Tup((print_i64(24); 24), (print_i64(25); 25)), (print_i64(26); 26)))).ap((print_i64(27); 27)));
  println_i64(mk((pick(Tup((print_i64(28); 28), (print_i64(29); 29)), (print_i64(30); 30)))).ap((((print_i64(31); 31)) + ((print_i64(32); 32)))));
  println_i64(mk((pick(Tup((print_i64(33); 33), (print_i64(34); 34)), (print_i64(35); 35)))).ap((((print_i64(36); 36)) - ((print_i64(37); 37)))));
  println_i64(mk((pick(Tup((print_i64(38); 38), (print_i64(39); 39)), (print_i64(40); 40)))).ap((f((print_i64(41); 41), (print_i64(42); 42)))));
  println_i64(mk((pick(Tup((print_i64(43); 43), (print_i64(44); 44)), (print_i64(45); 45)))).ap((Tup((print_i64(46); 46), (print_i64(47); 47)).case { Tup(a, b) => a - b })));
  println_i64(mk((pick(Tup((print_i64(48); 48), (print_i64(49); 49)), (print_i64(50); 50)))).ap((if ((print_i64(51); 51)) < ((print_i64(52); 52)) { 1 } else { 2 })));
  println_i64(mk((pick(Tup((print_i64(53); 53), (print_i64(54); 54)), (print_i64(55); 55)))).ap((mk((print_i64(56); 56)).ap((print_i64(57); 57)))));
  println_i64(mk((pick(Tup((print_i64(58); 58), (print_i64(59); 59)), (print_i64(60); 60)))).ap((let v: i64 = (print_i64(61); 61); ((print_i64(62); 62)) * v)));
  println_i64(mk((pick(Tup((print_i64(63); 63), (print_i64(64); 64)), (print_i64(65); 65)))).ap((pick(Tup((print_i64(66); 66), (print_i64(67); 67)), (print_i64(68); 68)))));
  println_i64(mk((pick(Tup((print_i64(69); 69), (print_i64(70); 70)), (print_i64(71); 71)))).ap((Wrap(Tup((print_i64(72); 72), (print_i64(73); 73)), (print_i64(74); 74)).case { Wrap(p, z) => pick(p, z) })));
  println_i64(mk((pick(Tup((print_i64(75); 75), (print_i64(76); 76)), (print_i64(77); 77)))).ap((hd2(Cons((print_i64(78); 78), Cons((print_i64(79); 79), Nil)), (print_i64(80); 80)))));
  0
}
