data Lst { Nil, Cons(h: i64, t: Lst) }
codata Fn { ap(x: i64): i64, twice(x: i64): i64 }
def fi(k: i64): i64 { print_i64(k); k + 100 }
def fl(k: i64): Lst { print_i64(k); Cons(k, Nil) }
def ff(k: i64): Fn { print_i64(k); new { ap(x) => x + k, twice(x) => (x + x) + k } }
def usei(x: i64): i64 { x + 1 }
def usel(l: Lst): i64 { l.case { Nil => 0, Cons(h, t) => h } }
def usef(f: Fn): i64 { f.ap(1) }
def main(n: i64): i64 {
  println_i64(let w152: Fn = new { ap(x) => x + 40, twice(x) => x }; let v152: Fn = ff(152); v152.ap(n));
  println_i64(let w154: Fn = new { ap(x) => x + 40, twice(x) => x }; let v154: Fn = ff(154); w154.ap(n));
  println_i64(let w156: Fn = new { ap(x) => x + 40, twice(x) => x }; let v156: Fn = label a156 { ff(156) }; v156.ap(5));
  println_i64(let w158: Fn = new { ap(x) => x + 40, twice(x) => x }; let v158: Fn = label a158 { ff(158) }; 7);
  println_i64(let w160: Fn = new { ap(x) => x + 40, twice(x) => x }; let v160: Fn = label a160 { ff(160) }; w160.ap(5));
  println_i64(let w162: Fn = new { ap(x) => x + 40, twice(x) => x }; let v162: Fn = label a162 { ff(162) }; (v162.ap(1)) + (v162.twice(2)));
  println_i64(let w164: Fn = new { ap(x) => x + 40, twice(x) => x }; let v164: Fn = label a164 { ff(164) }; usef(v164));
  println_i64(let w166: Fn = new { ap(x) => x + 40, twice(x) => x }; let v166: Fn = label a166 { ff(166) }; v166.ap(n));
  println_i64(let w168: Fn = new { ap(x) => x + 40, twice(x) => x }; let v168: Fn = label a168 { ff(168) }; w168.ap(n));
  println_i64(let w170: Fn = new { ap(x) => x + 40, twice(x) => x }; let v170: Fn = if n == 0 { ff(170) } else { ff(171) }; v170.ap(5));
  println_i64(let w172: Fn = new { ap(x) => x + 40, twice(x) => x }; let v172: Fn = if n == 0 { ff(172) } else { ff(173) }; 7);
  println_i64(let w174: Fn = new { ap(x) => x + 40, twice(x) => x }; let v174: Fn = if n == 0 { ff(174) } else { ff(175) }; w174.ap(5));
  println_i64(let w176: Fn = new { ap(x) => x + 40, twice(x) => x }; let v176: Fn = if n == 0 { ff(176) } else { ff(177) }; (v176.ap(1)) + (v176.twice(2)));
  println_i64(let w178: Fn = new { ap(x) => x + 40, twice(x) => x }; let v178: Fn = if n == 0 { ff(178) } else { ff(179) }; usef(v178));
  println_i64(let w180: Fn = new { ap(x) => x + 40, twice(x) => x }; let v180: Fn = if n == 0 { ff(180) } else { ff(181) }; v180.ap(n));
  0
}
