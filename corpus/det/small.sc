data Bit { T, F }
data List[A] { Cons(head: A, tail: List[A]), Nil }
data Opt[A] { Some(it: A), None }
codata Fun[A, B] { apply(arg: A): B }
codata Stream[A] { tail: Stream[A], head: A }
def neg(b: Bit): Bit { b.case { T => F, F => T } }
def idl(l: List[i64]): List[i64] { l }
def ido(o: Opt[i64], k: i64): Opt[i64] { if k == 0 { o } else { ido(o, k - 1) } }
def idf(f: Fun[i64, i64]): Fun[i64, i64] { f }
def ids(s: Stream[i64]): Stream[i64] { s }
def nat(n: i64): Stream[i64] { new { tail => nat(n + 1), head => n } }
def main(x: i64): i64 {
  let r: i64 = neg(if x == 0 { T } else { F }).case { T => 1, F => label k { if x < 5 { goto k (7) } else { x * 3 } } };
  let a: i64 = idl(Cons(x, Nil)).case[i64] { Cons(h, t) => h, Nil => 0 };
  let b: i64 = ido(Some(r), 2).case[i64] { Some(v) => v, None => 0 };
  let c: i64 = idf(new { apply(y) => y + 1 }).apply[i64, i64](a);
  let d: i64 = ids(nat(x)).tail[i64].head[i64];
  ((r + a) + (b + c)) + d
}
