data B { T, F }
def neg(b: B): B { b.case { T => F, F => T } }
def main(x: i64): i64 { let r: i64 = neg(if x == 0 { T } else { F }).case { T => 1, F => label k { if x < 5 { goto k (7) } else { x * 3 } } }; r }
