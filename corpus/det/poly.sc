data List[A] { Nil, Cons(x: A, xs: List[A]) }
data Pair[A, B] { Tup(fst: A, snd: B) }
data Opt[A] { None, Some(v: A) }
codata Fun[A, B] { apply(x: A): B }
codata Stream[A] { head: A, tail: Stream[A] }
def len(l: List[i64]): i64 { l.case[i64] { Nil => 0, Cons(x, xs) => 1 + len(xs) } }
def lenp(l: List[Pair[i64, i64]]): i64 { l.case[Pair[i64, i64]] { Nil => 0, Cons(x, xs) => 1 + lenp(xs) } }
def get(o: Opt[List[i64]]): i64 { o.case[List[i64]] { None => 0, Some(v) => len(v) } }
def geti(o: Opt[i64]): i64 { o.case[i64] { None => 0, Some(v) => v } }
def ones(): Stream[i64] { new { head => 1, tail => ones() } }
def pairs(): Stream[Pair[i64, i64]] { new { head => Tup(1, 2), tail => pairs() } }
def app(f: Fun[i64, i64], x: i64): i64 { f.apply[i64, i64](x) }
def appo(f: Fun[i64, Opt[i64]], x: i64): Opt[i64] { f.apply[i64, Opt[i64]](x) }
def main(n: i64): i64 {
  let a: i64 = len(Cons(1, Cons(2, Nil)));
  let b: i64 = lenp(Cons(Tup(1, 2), Nil));
  let c: i64 = get(Some(Cons(n, Nil)));
  let d: i64 = geti(appo(new { apply(x) => if x == 0 { None } else { Some(x) } }, n));
  let e: i64 = app(new { apply(x) => x * 2 }, ones().head[i64]);
  let f: i64 = pairs().tail[Pair[i64, i64]].head[Pair[i64, i64]].case[i64, i64] { Tup(p, q) => p + q };
  println_i64((((a + b) + c) + d) + (e + f));
  0
}
