data List[A] { Nil, Cons(x: A, xs: List[A]) }
data Pair[A, B] { Tup(a: A, b: B) }

def loop(n: i64, acc: i64, a1: i64, a2: i64, a3: i64, a4: i64, a5: i64, a6: i64, a7: i64, a8: i64, a9: i64, a10: i64, a11: i64): i64 {
  if n == 0 { acc + a11 } else {
    let unused: List[i64] = Cons(n, Cons(a1, Nil));
    let p: Pair[i64, i64] = Tup(n, acc);
    p.case[i64, i64] { Tup(a, b) => loop(n - 1, b + a, a1, a2, a3, a4, a5, a6, a7, a8, a9, a10, a11) }
  }
}

def main(n: i64): i64 { loop(n, 0, 1, 2, 3, 4, 5, 6, 7, 8, 9, 10, 11) }
