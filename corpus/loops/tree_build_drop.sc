data Tree { Leaf(v: i64), Node(l: Tree, r: Tree) }
def build(d: i64): Tree { if d == 0 { Leaf(1) } else { Node(build(d - 1), build(d - 1)) } }
def sum(t: Tree): i64 { t.case { Leaf(v) => v, Node(l, r) => sum(l) + sum(r) } }
def loop(n: i64, acc: i64): i64 { if n == 0 { acc } else { loop(n - 1, acc + sum(build(2))) } }
def main(n: i64): i64 { println_i64(loop(n, 0)); 0 }
