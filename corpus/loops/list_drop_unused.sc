data List { Nil, Cons(x: i64, xs: List) }
def build(k: i64, acc: List): List { if k == 0 { acc } else { build(k - 1, Cons(k, acc)) } }
def loop(n: i64, acc: i64): i64 { if n == 0 { acc } else { let l: List = build(5, Nil); loop(n - 1, acc + n) } }
def main(n: i64): i64 { println_i64(loop(n, 0)); 0 }
