data Rec { R7(a: i64, b: i64, c: i64, d: i64, e: i64, f: i64, g: i64), R5(a: i64, b: Rec, c: i64, d: i64, e: i64), R0 }
def mk(n: i64): Rec { R5(n, R7(n, 2, 3, 4, 5, 6, 7), 9, 10, R0.case { R0 => 11, R7(a, b, c, d, e, f, g) => 0, R5(a, b, c, d, e) => 0 }) }
def use(r: Rec): i64 { r.case { R0 => 0, R7(a, b, c, d, e, f, g) => (a + g) + d, R5(a, b, c, d, e) => (a + use(b)) + e } }
def loop(n: i64, acc: i64): i64 { if n == 0 { acc } else { loop(n - 1, acc + use(mk(n))) } }
def main(n: i64): i64 { println_i64(loop(n, 0)); 0 }
