data Rec { Mk(a: i64, b: i64, c: i64, d: i64, e: i64, f: i64, g: i64) }
codata Fn { ap(x: i64): i64 }

def total(r: Rec): i64 { r.case { Mk(a, b, c, d, e, f, g) => ((a + b) + (c + d)) + ((e + f) + g) } }
def mkadd(a: i64, b: i64, c: i64, d: i64, e: i64, f: i64, g: i64): Fn { new { ap(x) => (((x + a) + (b + c)) + ((d + e) + (f + g))) } }
def loop(n: i64, acc: i64): i64 {
  if n == 0 { acc } else {
    let t: i64 = total(Mk(n, acc, 1, 2, 3, 4, 5));
    let u: i64 = mkadd(n, 1, 2, 3, 4, 5, 6).ap(t);
    loop(n - 1, u - t)
  }
}

def main(n: i64): i64 { loop(n, 0) }
