data List { Nil, Cons(x: i64, xs: List) }
def build(k: i64, acc: List): List { if k == 0 { acc } else { build(k - 1, Cons(k, acc)) } }
def sum(l: List, acc: i64): i64 { l.case { Nil => acc, Cons(x, xs) => sum(xs, acc + x) } }
def loop(n: i64, acc: i64): i64 { if n == 0 { acc } else { let l: List = build(3, Nil); loop(n - 1, (acc + sum(l, 0)) + sum(l, 0)) } }
def main(n: i64): i64 { println_i64(loop(n, 0)); 0 }
