data List { Nil, Cons(x: i64, xs: List) }
codata Fun { apply(x: i64): i64 }
def build(k: i64, acc: List): List { if k == 0 { acc } else { build(k - 1, Cons(k, acc)) } }
def sum(l: List, acc: i64): i64 { l.case { Nil => acc, Cons(x, xs) => sum(xs, acc + x) } }
def mk(k: i64, l: List): Fun { new { apply(x) => (x + k) + sum(l, 0) } }
def loop(n: i64, acc: i64): i64 { if n == 0 { acc } else { let f: Fun = mk(n, build(3, Nil)); loop(n - 1, acc + (f.apply(1))) } }
def main(n: i64): i64 { println_i64(loop(n, 0)); 0 }
