codata Fun[A, B] { apply(x: A): B }
data Box { B(v: i64, w: i64, f: Fun[i64, i64]) }

def loop(n: i64, acc: i64, a1: i64, a2: i64, a3: i64, a4: i64, a5: i64, a6: i64, a7: i64, a8: i64, a9: i64, a10: i64, a11: i64): i64 {
  if n == 0 { acc + a11 } else {
    let f: Fun[i64, i64] = new { apply(x) => (x + a1) + (a2 + (a3 + a4)) };
    let b: Box = B(n, acc, f);
    let g: Fun[i64, i64] = new { apply(y) => y * a5 };
    b.case { B(v, w, h) => loop(n - 1, (h.apply[i64, i64](v)) + w, a1, a2, a3, a4, a5, a6, a7, a8, a9, a10, a11) }
  }
}

def main(n: i64): i64 { loop(n, 0, 1, 2, 3, 4, 5, 6, 7, 8, 9, 10, 11) }
