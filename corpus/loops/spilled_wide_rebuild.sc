data Q { Q(a: i64, b: i64, c: i64, d: i64, e: i64) }

def loop(n: i64, a: i64, b: i64, c: i64, d: i64, p1: i64, p2: i64, p3: i64): i64 {
  if n == 0 { ((a + b) + (c + d)) + ((p1 + p2) + p3) } else {
    let q: Q = Q(a, b, c, d, n);
    q.case { Q(x, y, z, w, v) =>
      let r: Q = Q(y, z, w, x, v);
      loop(n - 1, x, y, z, w, p1, p2, p3) }
  }
}

def main(n: i64): i64 { loop(n, 1, 2, 3, 4, 5, 6, 7) }
