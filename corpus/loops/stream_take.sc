codata Stream { head: i64, tail: Stream }
data List { Nil, Cons(x: i64, xs: List) }
def from(k: i64): Stream { new { head => k, tail => from(k + 1) } }
def take(n: i64, s: Stream): List { if n == 0 { Nil } else { Cons(s.head, take(n - 1, s.tail)) } }
def sum(l: List, acc: i64): i64 { l.case { Nil => acc, Cons(x, xs) => sum(xs, acc + x) } }
def loop(n: i64, acc: i64): i64 { if n == 0 { acc } else { loop(n - 1, acc + sum(take(3, from(n)), 0)) } }
def main(n: i64): i64 { println_i64(loop(n, 0)); 0 }
