data Color { Red, Green, Blue }
data Opt { None, Some(v: i64) }
codata Thunk { force: i64 }
def f(): i64 { 7 }
def g(): i64 { println_i64(11); 13 }
def h(k: i64): i64 { k + 1 }
def pick(c: Color): i64 { c.case { Red => f(), Green => g(), Blue => 3 } }
def pick2(c: Color): i64 { c.case { Red => 1, Green => f(), Blue => f() } }
def pick3(k: i64, c: Color): i64 { c.case { Red => h(k), Green => h(k), Blue => h(k) } }
def opt(o: Opt): i64 { o.case { None => f(), Some(v) => h(v) } }
def th(): Thunk { new { force => g() } }
def main(): i64 {
  println_i64(pick(Red)); println_i64(pick(Green)); println_i64(pick(Blue));
  println_i64(pick2(Red)); println_i64(pick2(Green)); println_i64(pick2(Blue));
  println_i64(pick3(4, Red)); println_i64(pick3(5, Green)); println_i64(pick3(6, Blue));
  println_i64(opt(None)); println_i64(opt(Some(20)));
  println_i64(th().force);
  0
}
